/-
Layer B — the queries of `wn/_queries.py` used by the public API: same filters, same
joins, same `DISTINCT` columns, same `ORDER BY` / `LIMIT`.  Results of queries without
`ORDER BY` are lists in table (rowid) order; callers that compare them treat them as
multisets.
-/
import WnVerif.Model.Db
import WnVerif.Model.Remove
namespace WnVerif.Db

/-- stable insertion sort by a key (`ORDER BY key`; ties keep table order) -/
def insertBy {α} (key : α → Nat) (a : α) : List α → List α
  | [] => [a]
  | b :: t => if key b ≤ key a then b :: insertBy key a t else a :: b :: t
def sortBy {α} (key : α → Nat) (l : List α) : List α := l.foldl (fun acc a => insertBy key a acc) []

/-- `lexicon_rowid IN (…)`; an empty tuple means "no filter" in `find_*` -/
def inLex (lexids : List Nat) (l : Nat) : Bool := lexids.contains l
def inLexOrAll (lexids : List Nat) (l : Nat) : Bool := lexids.isEmpty || lexids.contains l

/-- the sub-select `SELECT entry_rowid FROM forms WHERE (form IN wordforms [OR normalized_form
IN wordforms]) [AND rank = 0]` — no lexicon filter, as in the source -/
def formMatch (db : Db) (forms : List String) (normalized allForms : Bool) (entry : Nat) : Bool :=
  db.forms.any (fun f => f.entry == entry &&
    (forms.contains f.form || (normalized && (match f.norm with | some n => forms.contains n | none => false))) &&
    (allForms || f.rank == 0))

structure FormData where
  form : String
  id : Option String
  script : Option String
  rowid : Nat
  deriving DecidableEq, Repr

structure WordData where
  id : String
  pos : String
  forms : List FormData
  lex : Nat
  rowid : Nat
  deriving DecidableEq, Repr

/-- `find_entries`; the JOIN with `forms` has no lexicon filter; an entry without any form row
does not appear -/
def findEntries (db : Db) (id : Option String) (forms : List String) (pos : Option String)
    (lexids : List Nat) (normalized allForms : Bool) : List WordData :=
  let es := db.entries.filter (fun e =>
    (match id with | some i => if i == "" then true else e.id == i | none => true) &&
    (forms.isEmpty || formMatch db forms normalized allForms e.rowid) &&
    (match pos with | some p => if p == "" then true else e.pos == p | none => true) &&
    inLexOrAll lexids e.lex)
  (sortBy (·.rowid) es).filterMap (fun e =>
    let fs := sortBy (·.rank) (db.forms.filter (fun f => f.entry == e.rowid))
    if fs.isEmpty then none else
    some { id := e.id, pos := e.pos, forms := fs.map (fun f => ⟨f.form, f.id, f.script, f.rowid⟩),
           lex := e.lex, rowid := e.rowid })

structure SenseData where
  id : String
  entryId : String
  synsetId : String
  lex : Nat
  rowid : Nat
  deriving DecidableEq, Repr

def senseData (db : Db) (s : RSense) : Option SenseData :=
  match db.entries.find? (fun e => e.rowid == s.entry), db.synsets.find? (fun x => x.rowid == s.synset) with
  | some e, some ss => some ⟨s.id, e.id, ss.id, s.lex, s.rowid⟩
  | _, _ => none

/-- `find_senses` -/
def findSenses (db : Db) (id : Option String) (forms : List String) (pos : Option String)
    (lexids : List Nat) (normalized allForms : Bool) : List SenseData :=
  (db.senses.filter (fun s =>
    (match id with | some i => if i == "" then true else s.id == i | none => true) &&
    (forms.isEmpty || formMatch db forms normalized allForms s.entry) &&
    (match pos with
      | some p => if p == "" then true else (match db.entries.find? (fun e => e.rowid == s.entry) with | some e => e.pos == p | none => false)
      | none => true) &&
    inLexOrAll lexids s.lex)).filterMap (senseData db)

structure SynsetData where
  id : String
  pos : String
  ili : Option String
  lex : Nat
  rowid : Nat
  deriving DecidableEq, Repr

def iliIdOf (db : Db) (r : Option Nat) : Option String :=
  match r with
  | some i => (db.ilis.find? (fun x => x.rowid == i)).map (·.id)
  | none => none

def synsetData (db : Db) (s : RSynset) : SynsetData := ⟨s.id, s.pos, iliIdOf db s.ili, s.lex, s.rowid⟩

def dedupBy {α β} [BEq β] (key : α → β) : List α → List α
  | [] => []
  | a :: t => a :: (dedupBy key t).filter (fun b => !(key b == key a))

/-- `find_synsets`.  With `forms`: joined with the senses of matching entries, `ORDER BY
entry_rowid, entry_rank`, `DISTINCT`. -/
def findSynsets (db : Db) (id : Option String) (forms : List String) (pos : Option String)
    (ili : Option String) (lexids : List Nat) (normalized allForms : Bool) : List SynsetData :=
  let ok (ss : RSynset) : Bool :=
    (match id with | some i => if i == "" then true else ss.id == i | none => true) &&
    (match pos with | some p => if p == "" then true else ss.pos == p | none => true) &&
    (match ili with
      | some i => if i == "" then true else (match iliIdOf db ss.ili with | some j => j == i | none => false)
      | none => true) &&
    inLexOrAll lexids ss.lex
  if forms.isEmpty then (db.synsets.filter ok).map (synsetData db)
  else
    let ss := db.senses.filter (fun s => formMatch db forms normalized allForms s.entry)
    let ordered := sortBy (fun s => s.entry * 100000 + s.erank) ss
    dedupBy (·.rowid) (ordered.filterMap (fun s =>
      match db.synsets.find? (fun x => x.rowid == s.synset) with
      | some x => if ok x then some (synsetData db x) else none
      | none => none))

/-- `get_synsets_for_ilis` -/
def synsetsForIlis (db : Db) (ilis : List String) (lexids : List Nat) : List SynsetData :=
  (db.synsets.filter (fun ss =>
    (match iliIdOf db ss.ili with | some j => ilis.contains j | none => false) && inLex lexids ss.lex)).map (synsetData db)

structure RelData (τ : Type) where
  name : String
  lexicon : String      -- specifier of the lexicon defining the relation
  md : Option Doc.Meta
  source : Nat
  target : τ
  deriving Repr

def lexSpec (db : Db) (l : Nat) : String :=
  match db.lexicons.find? (fun r => r.rowid == l) with
  | some r => r.id ++ ":" ++ r.version
  | none => ""

def typeOk (db : Db) (types : List String) (t : Nat) : Option String :=
  match lookupName db.reltypes t with
  | some n => if types.isEmpty || types.contains "*" || types.contains n then some n else none
  | none => none

/-- `get_synset_relations(source_rowids, relation_types, lexicon_rowids)`: relation and target
both owned by `lexids`; `DISTINCT` over the selected columns -/
def synsetRelations (db : Db) (sources : List Nat) (types : List String) (lexids : List Nat) :
    List (RelData SynsetData) :=
  let rows := db.synrels.filterMap (fun r =>
    if sources.contains r.source && inLex lexids r.lex then
      match typeOk db types r.type, db.synsets.find? (fun x => x.rowid == r.target) with
      | some n, some tgt => if inLex lexids tgt.lex then
          some ({ name := n, lexicon := lexSpec db r.lex, md := r.md, source := r.source, target := synsetData db tgt } : RelData SynsetData)
        else none
      | _, _ => none
    else none)
  dedupBy (fun r => (r.name, r.lexicon, r.md, r.source, r.target.rowid)) rows

def senseRelations (db : Db) (source : Nat) (types : List String) (lexids : List Nat) :
    List (RelData SenseData) :=
  let rows := db.senserels.filterMap (fun r =>
    if r.source == source && inLex lexids r.lex then
      match typeOk db types r.type, db.senses.find? (fun x => x.rowid == r.target) with
      | some n, some tgt => if inLex lexids tgt.lex then
          (senseData db tgt).map (fun d => ({ name := n, lexicon := lexSpec db r.lex, md := r.md, source := r.source, target := d } : RelData SenseData))
        else none
      | _, _ => none
    else none)
  dedupBy (fun r => (r.name, r.lexicon, r.md, r.target.rowid)) rows

def senseSynsetRelations (db : Db) (source : Nat) (types : List String) (lexids : List Nat) :
    List (RelData SynsetData) :=
  let rows := db.sensesynrels.filterMap (fun r =>
    if r.source == source && inLex lexids r.lex then
      match typeOk db types r.type, db.synsets.find? (fun x => x.rowid == r.target) with
      | some n, some tgt => if inLex lexids tgt.lex then
          some ({ name := n, lexicon := lexSpec db r.lex, md := r.md, source := r.source, target := synsetData db tgt } : RelData SynsetData)
        else none
      | _, _ => none
    else none)
  dedupBy (fun r => (r.name, r.lexicon, r.md, r.source, r.target.rowid)) rows

/-- `get_definitions`: (text, language, source sense id, rowid) -/
def definitions (db : Db) (synset : Nat) (lexids : List Nat) : List (String × Option String × Option String × Nat) :=
  (db.defs.filter (fun d => d.synset == synset && inLex lexids d.lex)).map (fun d =>
    (d.text, d.language, (match d.sense with
      | some s => (db.senses.find? (fun x => x.rowid == s)).map (·.id)
      | none => none), d.rowid))

def synsetExamples (db : Db) (synset : Nat) (lexids : List Nat) : List RExample :=
  db.synexs.filter (fun x => x.owner == synset && inLex lexids x.lex)
def senseExamples (db : Db) (sense : Nat) (lexids : List Nat) : List RExample :=
  db.sensexs.filter (fun x => x.owner == sense && inLex lexids x.lex)

/-- `get_syntactic_behaviours(sense rowid, lexids)` -/
def senseFrames (db : Db) (sense : Nat) (lexids : List Nat) : List String :=
  db.sbs.flatMap (fun sb =>
    if inLex lexids sb.lex then
      (db.sbsenses.filter (fun x => x.sb == sb.rowid && x.sense == sense)).map (fun _ => sb.frame)
    else [])

/-- insertion sort of syntactic-behaviour rows by (lexicon rowid, frame string) -/
def insertSb (a : RSb) : List RSb → List RSb
  | [] => [a]
  | b :: t => if a.lex < b.lex || (a.lex == b.lex && a.frame < b.frame) then a :: b :: t else b :: insertSb a t

/-- `find_syntactic_behaviours(lexicon_rowids)` grouped by (id, frame).  With a lexicon filter
SQLite walks the index of `UNIQUE (lexicon_rowid, frame)`, so frames come out ordered by frame
string (a planner choice: validated by correspondence, not proved); sense ids of a frame are in
link insertion order; a frame without linked senses does not appear (inner joins) -/
def findSbs (db : Db) (lexids : List Nat) : List (Option String × String × List String) :=
  let rows := (db.sbs.filter (fun sb => inLexOrAll lexids sb.lex)).foldr insertSb []
  rows.filterMap (fun sb =>
    let ss := (db.sbsenses.filter (fun x => x.sb == sb.rowid)).filterMap (fun x =>
      (db.senses.find? (fun s => s.rowid == x.sense)).map (·.id))
    if ss.isEmpty then none else some (sb.id, sb.frame, ss))

/-- `get_entry_senses` / `get_synset_members`: `ORDER BY entry_rank` / `synset_rank` -/
def entrySenses (db : Db) (entry : Nat) (lexids : List Nat) : List SenseData :=
  (sortBy (·.erank) (db.senses.filter (fun s => s.entry == entry && inLex lexids s.lex))).filterMap (senseData db)
def synsetMembers (db : Db) (synset : Nat) (lexids : List Nat) : List SenseData :=
  (sortBy (·.srank) (db.senses.filter (fun s => s.synset == synset && inLex lexids s.lex))).filterMap (senseData db)

def formTags (db : Db) (form : Nat) : List RTag := db.tags.filter (fun t => t.form == form)
def formProns (db : Db) (form : Nat) : List RPron := db.prons.filter (fun t => t.form == form)
def senseCounts (db : Db) (sense : Nat) (lexids : List Nat) : List RCount :=
  db.counts.filter (fun c => c.sense == sense && inLex lexids c.lex)
def adjposition (db : Db) (sense : Nat) : Option String :=
  (db.adjs.find? (fun a => a.sense == sense)).map (·.adjposition)
def lexfileOf (db : Db) (synset : Nat) : Option String :=
  match db.synsets.find? (fun s => s.rowid == synset) with
  | some s => (match s.lexfile with | some l => lookupName db.lexfiles l | none => none)
  | none => none

/-- `find_ilis(id, status, lexicon_rowids)`: existing then proposed -/
structure IliData where
  id : Option String
  status : String
  definition : Option String
  rowid : Nat
  deriving DecidableEq, Repr

def findIlis (db : Db) (id : Option String) (status : Option String) (lexids : List Nat) : List IliData :=
  let idGiven := match id with | some i => i != "" | none => false
  let stGiven := match status with | some s => s != "" | none => false
  let existing : List IliData :=
    if status == some "proposed" then [] else
    db.ilis.filterMap (fun i =>
      match lookupName db.ilistatuses i.status with
      | none => none
      | some st =>
        if (!idGiven || some i.id == id) && (!stGiven || some st == status) &&
           (lexids.isEmpty || db.synsets.any (fun ss => ss.ili == some i.rowid && lexids.contains ss.lex))
        then some ⟨some i.id, st, i.definition, i.rowid⟩ else none)
  let proposed : List IliData :=
    if !idGiven && (!stGiven || status == some "proposed") then
      db.pilis.filterMap (fun p =>
        if lexids.isEmpty || db.synsets.any (fun ss => ss.rowid == p.synset && lexids.contains ss.lex)
        then some ⟨none, "proposed", p.definition, p.rowid⟩ else none)
    else []
  existing ++ proposed

end WnVerif.Db
