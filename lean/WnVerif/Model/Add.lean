/-
Layer B — `_add_lexical_resource` of `wn/_add.py`, transcribed step by step:
`_precheck`, `_update_lookup_tables`, `_collect_frames`, `_insert_lexicon`,
`_build_lexid_map`, then the `_insert_*` steps in source order.  Every id → rowid
resolution is the scalar sub-select of the source (first match), every `NOT NULL` /
`UNIQUE` the schema declares is enforced; failure leaves no trace (`Except`).
`_batch` is the identity on content and is not modelled.
`normalize_form` (Unicode NFKD) is the parameter `norm`.
-/
import WnVerif.Model.Db
namespace WnVerif.Db
open WnVerif.Doc

abbrev R := Except String

def need {α} (msg : String) : Option α → R α
  | some a => .ok a
  | none => .error msg

/-- append rows numbered consecutively from the table's next rowid -/
def number {ρ} (start : Nat) (mk : List (Nat → ρ)) : List ρ :=
  (mk.zipIdx).map (fun (f, i) => f (start + i))

/-- `_precheck`: skip a lexicon already installed, or an extension whose base is missing -/
def skip (db : Db) (l : Lexicon) : Bool :=
  if (lexiconRow db l.id l.version).isSome then true
  else match l.ext with
    | some b => (lexiconRow db b.id b.version).isNone
    | none => false

/-- `_update_lookup_tables` -/
def updateLookups (db : Db) (l : Lexicon) : Db :=
  let reltypes := sortedSet
    (l.synsets.flatMap (fun ss => ss.relations.map (·.relType)) ++
     l.entries.flatMap (fun e => e.senses.flatMap (fun s => s.relations.map (·.relType))))
  let lexfiles := sortedSet ((localSynsets l).filterMap (fun ss =>
    match ss.lexfile with | some f => if f == "" then none else some f | none => none))
  { db with reltypes := reltypes.foldl lookupInsert db.reltypes
            lexfiles := lexfiles.foldl lookupInsert db.lexfiles }

/-- `_collect_frames`: association list frame string ↦ (id, senses), in dict order -/
structure Sb where
  id : Option String
  frame : String
  senses : List String
  deriving Repr

def sbUpsert (sbs : List Sb) (frame : String) (f : Option Sb → Sb) : List Sb :=
  if sbs.any (fun s => s.frame == frame)
  then sbs.map (fun s => if s.frame == frame then f (some s) else s)
  else sbs ++ [f none]

/-- the source raises `KeyError` for a lexicon-level frame without `id` and for an unknown
`subcat` id -/
def collectFrames (l : Lexicon) : R (List Sb) := do
  -- dict comprehension keyed by the frame string: a later frame with the same string replaces
  let mut sbs : List Sb := []
  for f in l.frames do
    let id ← need "KeyError: frame id" f.id
    sbs := sbUpsert sbs f.frame (fun _ => { id := some id, frame := f.frame, senses := f.senses })
  for e in l.entries do
    for s in localSenses e do
      for sbid in s.subcat do
        -- id_senses_map[sbid].append(sense id); ids that are falsy are not in the map
        if sbs.any (fun sb => sb.id == some sbid && sbid != "") then
          -- several frames with one id: the dict keeps the last
          let last := (sbs.filter (fun sb => sb.id == some sbid)).getLast?
          match last with
          | some tgt => sbs := sbs.map (fun sb => if sb.frame == tgt.frame then { sb with senses := sb.senses ++ [s.id] } else sb)
          | none => pure ()
        else throw s!"KeyError: {sbid}"
    if e.external || e.frames.isEmpty then continue
    let allSenses := e.senses.map (·.id)
    for f in e.frames do
      let senses := if f.senses.isEmpty then allSenses else f.senses
      sbs := sbUpsert sbs f.frame (fun o =>
        match o with
        | some sb => { sb with senses := sb.senses ++ senses }
        | none => { id := none, frame := f.frame, senses := senses })
  return sbs

/-- ids that `_build_lexid_map` maps to the extended lexicon -/
def externalIds (l : Lexicon) : List String :=
  (l.entries.filter (·.external)).map (·.id) ++
  l.entries.flatMap (fun e => (e.senses.filter (·.external)).map (·.id)) ++
  (l.synsets.filter (·.external)).map (·.id)

structure Ctx where
  lexid : Nat
  extid : Nat
  extIds : List String

def Ctx.lid (c : Ctx) (id : String) : Nat :=
  if c.lexid != c.extid && c.extIds.contains id then c.extid else c.lexid

def boolOr (o : Option Bool) (d : Bool) : Bool := o.getD d

/-- `_insert_lexicon` -/
def insertLexicon (db : Db) (l : Lexicon) : R (Db × Nat × Nat) := do
  if (lexiconRow db l.id l.version).isSome then throw "UNIQUE lexicons(id, version)"
  let lexid := nextId (db.lexicons.map (·.rowid))
  let row : RLexicon := { rowid := lexid, id := l.id, label := l.label, language := l.language, email := l.email, license := l.license, version := l.version, url := l.url, citation := l.citation, logo := l.logo, md := l.md }
  let db1 := { db with lexicons := db.lexicons ++ [row] }
  -- re-link waiting dependencies
  let db2 := { db1 with deps := db1.deps.map (fun d =>
    if d.pid == l.id && d.pver == l.version then { d with provider := some lexid } else d) }
  let newDeps := l.requires.map (fun d =>
    ({ dependent := lexid, pid := d.id, pver := d.version, purl := d.url, provider := lexiconRow db2 d.id d.version } : RDep))
  let db3 := { db2 with deps := db2.deps ++ newDeps }
  match l.ext with
  | some b =>
    let base := lexiconRow db3 b.id b.version
    let erow : RExt := { ext := lexid, bid := b.id, bver := b.version, burl := b.url, base := base }
    let db4 := { db3 with exts := db3.exts ++ [erow] }
    let extid ← need "base lexicon missing" base
    return (db4, lexid, extid)
  | none => return (db3, lexid, lexid)

/-- `_insert_synsets`, first pass: `INSERT OR IGNORE` of a presupposed ILI for every synset that names one -/
def presupStep (presup : Nat) (db : Db) (ss : Synset) : R Db :=
  if ss.ili != "" && ss.ili != "in" then
    if !(db.ilis.any (fun r => r.id == ss.ili)) then
      let row : RIli := {rowid := nextId (db.ilis.map (·.rowid)), id := ss.ili, status := presup, definition := ss.iliDef.map (·.text), md := ss.iliDef.bind (·.md)}
      .ok { db with ilis := db.ilis ++ [row] }
    else .ok db
  else .ok db

/-- second pass: the synset rows -/
def synsetStep (c : Ctx) (db : Db) (ss : Synset) : R Db := do
  let pos ← need "KeyError: partOfSpeech" ss.pos
  let ili := if ss.ili != "" && ss.ili != "in" then (db.ilis.find? (fun r => r.id == ss.ili)).map (·.rowid) else none
  let lf := match ss.lexfile with | some f => lookupId db.lexfiles f | none => none
  let row : RSynset := {rowid := nextId (db.synsets.map (·.rowid)), id := ss.id, lex := c.lexid, ili := ili, pos := pos, lexicalized := boolOr ss.lexicalized true, lexfile := lf, md := ss.md}
  return { db with synsets := db.synsets ++ [row] }

/-- third pass: proposed ILIs -/
def piliStep (c : Ctx) (db : Db) (ss : Synset) : R Db :=
  if ss.ili == "in" then do
    let sr ← need "NOT NULL proposed_ilis.synset_rowid" (synsetRow db ss.id c.lexid)
    if db.pilis.any (fun r => r.synset == sr) then throw "UNIQUE proposed_ilis(synset_rowid)"
    let row : RPIli := {rowid := nextId (db.pilis.map (·.rowid)), synset := sr, definition := ss.iliDef.map (·.text), md := ss.iliDef.bind (·.md)}
    return { db with pilis := db.pilis ++ [row] }
  else .ok db

/-- `_insert_synsets` (presupposed ILIs, synsets, proposed ILIs): three loops over the local synsets -/
def insertSynsets (db : Db) (l : Lexicon) (c : Ctx) : R Db := do
  let presup ← need "ili status" (lookupId db.ilistatuses "presupposed")
  let db1 ← (localSynsets l).foldlM (presupStep presup) db
  let db2 ← (localSynsets l).foldlM (synsetStep c) db1
  (localSynsets l).foldlM (piliStep c) db2

/-- `_insert_entries`: one row per non-external entry -/
def entryStep (c : Ctx) (db : Db) (e : Entry) : R Db := do
  let lem ← need "KeyError: lemma" e.lemma
  if (entryRow db e.id c.lexid).isSome then throw "UNIQUE entries(id, lexicon_rowid)"
  let row : REntry := {rowid := nextId (db.entries.map (·.rowid)), id := e.id, lex := c.lexid, pos := lem.pos, md := e.md}
  return { db with entries := db.entries ++ [row] }

def insertEntries (db : Db) (l : Lexicon) (c : Ctx) : R Db := (localEntries l).foldlM (entryStep c) db

def addForm (db : Db) (norm : String → String) (lexid : Nat) (entry : Nat) (id : Option String)
    (form : String) (script : Option String) (rank : Nat) : R Db := do
  -- UNIQUE (entry_rowid, form, script): NULL scripts never clash
  if script.isSome && db.forms.any (fun f => f.entry == entry && f.form == form && f.script == script) then
    throw "UNIQUE forms(entry_rowid, form, script)"
  let n := norm form
  let row : RForm := { rowid := nextId (db.forms.map (·.rowid)), id := id, lex := lexid, entry := entry, form := form, norm := (if n != form then some n else none), script := script, rank := rank }
  return { db with forms := db.forms ++ [row] }

/-- one `<Form>` of an entry (rank = position + 1); external forms are not inserted -/
def formStep (norm : String → String) (c : Ctx) (e : Entry) (db : Db) (fi : Form × Nat) : R Db :=
  if fi.1.external then .ok db
  else do
    let er ← need "NOT NULL forms.entry_rowid" (entryRow db e.id (c.lid e.id))
    addForm db norm c.lexid er fi.1.id fi.1.form fi.1.script (fi.2 + 1)

/-- the lemma (rank 0, non-external entries only) and the further forms of one entry -/
def entryFormsStep (norm : String → String) (c : Ctx) (db : Db) (e : Entry) : R Db := do
  let db1 ← if !e.external then do
      let lem ← need "KeyError: lemma" e.lemma
      let er ← need "NOT NULL forms.entry_rowid" (entryRow db e.id (c.lid e.id))
      addForm db norm c.lexid er none lem.form lem.script 0
    else pure db
  e.forms.zipIdx.foldlM (formStep norm c e) db1

/-- `_insert_forms` -/
def insertForms (db : Db) (norm : String → String) (l : Lexicon) (c : Ctx) : R Db :=
  l.entries.foldlM (entryFormsStep norm c) db

/-- form-like elements of an entry with the `(form id, rank)` pair `FORM_QUERY` is asked for: the lemma
(rank 0), then each `<Form>` (rank = position + 1; `none` = the -1 used for external forms) -/
def formLikes (e : Entry) : List (Option String × Option Nat × List Pron × List Tag) :=
  (match e.lemma with | some lem => [(none, some 0, lem.prons, lem.tags)] | none => []) ++
  e.forms.zipIdx.map (fun (f, i) => (f.id, if f.external then none else some (i + 1), f.prons, f.tags))

def pronStep (c : Ctx) (e : Entry) (fid : Option String) (rank : Option Nat) (db : Db) (p : Pron) : R Db := do
  let fr ← need "NOT NULL pronunciations.form_rowid" (formRow db e.id (c.lid e.id) fid rank)
  let row : RPron := {form := fr, value := p.text, variety := p.variety, notat := p.notat, phonemic := boolOr p.phonemic true, audio := p.audio}
  return { db with prons := db.prons ++ [row] }

def tagStep (c : Ctx) (e : Entry) (fid : Option String) (rank : Option Nat) (db : Db) (t : Tag) : R Db := do
  let fr ← need "NOT NULL tags.form_rowid" (formRow db e.id (c.lid e.id) fid rank)
  let row : RTag := {form := fr, tag := t.text, category := t.category}
  return { db with tags := db.tags ++ [row] }

/-- `_insert_pronunciations` and `_insert_tags`: pronunciations of all entries first, then tags of
all entries (two passes in the source) -/
def insertPronsTags (db : Db) (l : Lexicon) (c : Ctx) : R Db := do
  let db1 ← l.entries.foldlM (fun db e =>
    (formLikes e).foldlM (fun db fl => fl.2.2.1.foldlM (pronStep c e fl.1 fl.2.1) db) db) db
  l.entries.foldlM (fun db e =>
    (formLikes e).foldlM (fun db fl => fl.2.2.2.foldlM (tagStep c e fl.1 fl.2.1) db) db) db1

/-- `ssrank`: index in `Synset@members`; a later synset listing the same sense wins -/
def memberRank (l : Lexicon) (defaultRank : Nat) (sid : String) : Nat :=
  let hits := (localSynsets l).filterMap (fun ss => (ss.members.zipIdx.filter (fun (m, _) => m == sid)).getLast?.map (·.2))
  hits.getLast?.getD defaultRank

/-- one local sense of an entry (entry rank = position among the entry's local senses) -/
def senseStep (l : Lexicon) (c : Ctx) (defaultRank : Nat) (e : Entry) (db : Db) (si : Sense × Nat) : R Db := do
  let er ← need "NOT NULL senses.entry_rowid" (entryRow db e.id (c.lid e.id))
  let sr ← need "NOT NULL senses.synset_rowid" (synsetRow db si.1.synset (c.lid si.1.synset))
  let row : RSense := {rowid := nextId (db.senses.map (·.rowid)), id := si.1.id, lex := c.lexid, entry := er, erank := si.2, synset := sr, srank := memberRank l defaultRank si.1.id, lexicalized := boolOr si.1.lexicalized true, md := si.1.md}
  return { db with senses := db.senses ++ [row] }

def adjStep (c : Ctx) (db : Db) (s : Sense) : R Db :=
  match s.adjposition with
  | some a =>
    if a != "" then do
      let sr ← need "NOT NULL adjpositions.sense_rowid" (senseRow db s.id (c.lid s.id))
      let row : RAdj := {sense := sr, adjposition := a}
      return { db with adjs := db.adjs ++ [row] }
    else .ok db
  | none => .ok db

def countStep (c : Ctx) (s : Sense) (db : Db) (cnt : Count) : R Db := do
  let sr ← need "NOT NULL counts.sense_rowid" (senseRow db s.id (c.lid s.id))
  let row : RCount := {rowid := nextId (db.counts.map (·.rowid)), lex := c.lexid, sense := sr, value := cnt.value, md := cnt.md}
  return { db with counts := db.counts ++ [row] }

/-- `_insert_senses`, `_insert_adjpositions`, `_insert_counts` -/
def insertSenses (db : Db) (l : Lexicon) (c : Ctx) (defaultRank : Nat) : R Db := do
  let db1 ← l.entries.foldlM (fun db e => (localSenses e).zipIdx.foldlM (senseStep l c defaultRank e) db) db
  let db2 ← l.entries.foldlM (fun db e => (localSenses e).foldlM (adjStep c) db) db1
  l.entries.foldlM (fun db e => e.senses.foldlM (fun db s => s.counts.foldlM (countStep c s) db) db) db2

/-- one row of `syntactic_behaviours` -/
def sbStep (c : Ctx) (db : Db) (sb : Sb) : R Db := do
  let id := match sb.id with | some i => if i == "" then none else some i | none => none
  if id.isSome && db.sbs.any (fun r => r.lex == c.lexid && r.id == id) then throw "UNIQUE syntactic_behaviours(lexicon_rowid, id)"
  if db.sbs.any (fun r => r.lex == c.lexid && r.frame == sb.frame) then throw "UNIQUE syntactic_behaviours(lexicon_rowid, frame)"
  let row : RSb := {rowid := nextId (db.sbs.map (·.rowid)), id := id, lex := c.lexid, frame := sb.frame}
  return { db with sbs := db.sbs ++ [row] }

/-- one row of `syntactic_behaviour_senses` -/
def sbSenseStep (c : Ctx) (sb : Sb) (db : Db) (sid : String) : R Db := do
  let sbr ← need "NOT NULL syntactic_behaviour_senses.syntactic_behaviour_rowid"
    ((db.sbs.find? (fun r => r.lex == c.lexid && r.frame == sb.frame)).map (·.rowid))
  let sr ← need "NOT NULL syntactic_behaviour_senses.sense_rowid" (senseRow db sid (c.lid sid))
  let row : RSbSense := {sb := sbr, sense := sr}
  return { db with sbsenses := db.sbsenses ++ [row] }

/-- `_insert_syntactic_behaviours` -/
def insertSbs (db : Db) (sbs : List Sb) (c : Ctx) : R Db := do
  let db1 ← sbs.foldlM (sbStep c) db
  sbs.foldlM (fun db sb => sb.senses.foldlM (sbSenseStep c sb) db) db1

def synRelStep (c : Ctx) (ss : Synset) (db : Db) (r : Relation) : R Db := do
  let src ← need "NOT NULL synset_relations.source_rowid" (synsetRow db ss.id (c.lid ss.id))
  let tgt ← need "NOT NULL synset_relations.target_rowid" (synsetRow db r.target (c.lid r.target))
  let ty ← need "NOT NULL synset_relations.type_rowid" (lookupId db.reltypes r.relType)
  let row : RRel := {rowid := nextId (db.synrels.map (·.rowid)), lex := c.lexid, source := src, target := tgt, type := ty, md := r.md}
  return { db with synrels := db.synrels ++ [row] }

def senseRelStep (c : Ctx) (db : Db) (p : String × Relation) : R Db := do
  let src ← need "NOT NULL sense_relations.source_rowid" (senseRow db p.1 (c.lid p.1))
  let tgt ← need "NOT NULL sense_relations.target_rowid" (senseRow db p.2.target (c.lid p.2.target))
  let ty ← need "NOT NULL sense_relations.type_rowid" (lookupId db.reltypes p.2.relType)
  let row : RRel := {rowid := nextId (db.senserels.map (·.rowid)), lex := c.lexid, source := src, target := tgt, type := ty, md := p.2.md}
  return { db with senserels := db.senserels ++ [row] }

def senseSynRelStep (c : Ctx) (db : Db) (p : String × Relation) : R Db := do
  let src ← need "NOT NULL sense_synset_relations.source_rowid" (senseRow db p.1 (c.lid p.1))
  let tgt ← need "NOT NULL sense_synset_relations.target_rowid" (synsetRow db p.2.target (c.lid p.2.target))
  let ty ← need "NOT NULL sense_synset_relations.type_rowid" (lookupId db.reltypes p.2.relType)
  let row : RRel := {rowid := nextId (db.sensesynrels.map (·.rowid)), lex := c.lexid, source := src, target := tgt, type := ty, md := p.2.md}
  return { db with sensesynrels := db.sensesynrels ++ [row] }

/-- the relations of all senses of the document, as (source sense id, relation) -/
def allSenseRels (l : Lexicon) : List (String × Relation) :=
  l.entries.flatMap (fun e => e.senses.flatMap (fun s => s.relations.map (fun r => (s.id, r))))

/-- `_insert_synset_relations` and `_insert_sense_relations`; sense relations are split by the kind of
their target, decided on the document's ids; a target that is neither raises `wn.Error` -/
def insertRelations (db : Db) (l : Lexicon) (c : Ctx) : R Db := do
  let db1 ← l.synsets.foldlM (fun db ss => ss.relations.foldlM (synRelStep c ss) db) db
  let synsetIds := l.synsets.map (·.id)
  let senseIds := l.entries.flatMap (fun e => e.senses.map (·.id))
  match (allSenseRels l).find? (fun p => !senseIds.contains p.2.target && !synsetIds.contains p.2.target) with
  | some p => throw s!"wn.Error: relation target is not a known sense or synset: {p.2.target}"
  | none =>
    let ss := (allSenseRels l).filter (fun p => senseIds.contains p.2.target)
    let sss := (allSenseRels l).filter (fun p => !senseIds.contains p.2.target && synsetIds.contains p.2.target)
    let db2 ← ss.foldlM (senseRelStep c) db1
    sss.foldlM (senseSynRelStep c) db2

def defStep (c : Ctx) (ss : Synset) (db : Db) (d : Definition) : R Db := do
  let sr ← need "NOT NULL definitions.synset_rowid" (synsetRow db ss.id (c.lid ss.id))
  let sense := match d.sourceSense with
    | some s => senseRow db s (c.lid s)
    | none => none
  let row : RDef := {rowid := nextId (db.defs.map (·.rowid)), lex := c.lexid, synset := sr, text := d.text, language := d.language, sense := sense, md := d.md}
  return { db with defs := db.defs ++ [row] }

def senseExampleStep (c : Ctx) (s : Sense) (db : Db) (x : Example) : R Db := do
  let sr ← need "NOT NULL sense_examples.sense_rowid" (senseRow db s.id (c.lid s.id))
  let row : RExample := {rowid := nextId (db.sensexs.map (·.rowid)), lex := c.lexid, owner := sr, text := x.text, language := x.language, md := x.md}
  return { db with sensexs := db.sensexs ++ [row] }

def synsetExampleStep (c : Ctx) (ss : Synset) (db : Db) (x : Example) : R Db := do
  let sr ← need "NOT NULL synset_examples.synset_rowid" (synsetRow db ss.id (c.lid ss.id))
  let row : RExample := {rowid := nextId (db.synexs.map (·.rowid)), lex := c.lexid, owner := sr, text := x.text, language := x.language, md := x.md}
  return { db with synexs := db.synexs ++ [row] }

/-- `_insert_synset_definitions` and the two `_insert_examples` calls -/
def insertDefsExamples (db : Db) (l : Lexicon) (c : Ctx) : R Db := do
  let db1 ← l.synsets.foldlM (fun db ss => ss.definitions.foldlM (defStep c ss) db) db
  let db2 ← l.entries.foldlM (fun db e => e.senses.foldlM (fun db s => s.examples.foldlM (senseExampleStep c s) db) db) db1
  l.synsets.foldlM (fun db ss => ss.examples.foldlM (synsetExampleStep c ss) db) db2

/-- one lexicon of the resource (the body of the loop in `_add_lexical_resource`) -/
def addLexicon (norm : String → String) (defaultRank : Nat) (db : Db) (l : Lexicon) : R Db := do
  let db := updateLookups db l
  let sbs ← collectFrames l
  let (db, lexid, extid) ← insertLexicon db l
  let c : Ctx := { lexid := lexid, extid := extid, extIds := externalIds l }
  let db ← insertSynsets db l c
  let db ← insertEntries db l c
  let db ← insertForms db norm l c
  let db ← insertPronsTags db l c
  let db ← insertSenses db l c defaultRank
  let db ← insertSbs db sbs c
  let db ← insertRelations db l c
  insertDefsExamples db l c

/-- `add_lexical_resource`: precheck against the database *before* the call, then all
lexicons inside one transaction: any failure leaves the database as it was -/
def addResource (norm : String → String) (defaultRank : Nat) (db : Db) (r : Resource) : R Db := do
  let skipmap := r.lexicons.map (fun l => (l.spec, skip db l))
  let mut cur := db
  for l in r.lexicons do
    -- later duplicates of a specifier overwrite earlier entries of the dict
    let sk := ((skipmap.filter (fun e => e.1 == l.spec)).getLast?.map (·.2)).getD false
    if sk then continue
    cur ← addLexicon norm defaultRank cur l
  return cur

/-- the observable outcome: the new database, or the old one when the add raised -/
def addResourceOrKeep (norm : String → String) (defaultRank : Nat) (db : Db) (r : Resource) : Db × Bool :=
  match addResource norm defaultRank db r with
  | .ok db' => (db', true)
  | .error _ => (db, false)

end WnVerif.Db
