/-
Model of `wn/project.py` `iterpackages` over an abstract file tree: which resource files a
path yields, or an error.  Byte formats (gzip, xz, tar), `tempfile` and the file-signature
sniffing are Python's stdlib / `_util.py`; the model is about the dispatch.
-/
namespace WnVerif.Project

/-- what a regular file is, as far as `is_lmf` / `is_ili` / `is_gzip` / `is_lzma` / `is_tarfile`
can tell -/
inductive Node
  | lmf (name : String)            -- a WN-LMF file (header accepted by `is_lmf`)
  | ili (name : String)            -- an ILI TSV file
  | other                          -- README, LICENSE, citation.bib, …
  | gz (inner : Node)              -- gzip-compressed file
  | xz (inner : Node)              -- xz-compressed file
  | tar (members : List Node)      -- (possibly compressed) tar archive: its top-level members
  | dir (children : List Node)
  deriving Repr, Inhabited

inductive Res
  | wordnet (name : String)
  | ili (name : String)
  deriving DecidableEq, Repr

/-- `_resource_file_type` of a directory child: only plain files qualify -/
def resourceOf : Node → Option Res
  | .lmf n => some (.wordnet n)
  | .ili n => some (.ili n)
  | _ => none

/-- `is_package_directory`: exactly one resource file among the immediate children -/
def packageResource : Node → Option Res
  | .dir cs => match cs.filterMap resourceOf with
    | [r] => some r
    | _ => none
  | _ => none

/-- `iterpackages`; `none` = `wn.Error` -/
def iterpackages : Nat → Node → Option (List Res)
  | 0, _ => none
  | fuel+1, n =>
    match n with
    | .dir cs =>
      match packageResource (.dir cs) with
      | some r => some [r]
      | none =>
        let pkgs := cs.filterMap packageResource
        if pkgs.isEmpty then none else some pkgs
    | .tar ms =>
      match ms with
      | [m] => iterpackages fuel m
      | _ => none
    | .gz inner => (resourceOf inner).map (fun r => [r])
    | .xz inner => (resourceOf inner).map (fun r => [r])
    | .lmf nm => some [.wordnet nm]
    | .ili nm => some [.ili nm]
    | .other => none

def depth : Node → Nat
  | .gz n => depth n + 1
  | .xz n => depth n + 1
  | .tar ms => (ms.map depth).foldl max 0 + 1
  | .dir cs => (cs.map depth).foldl max 0 + 1
  | _ => 1

end WnVerif.Project
