/-
Layer B — the relational store: one row structure per table of `wn/schema.sql`, one
list per table, rows in insertion order.  `Props/Schema.lean` re-checks on every run
that `schema` below equals the schema regenerated from the source (`Gen.schema`).
-/
import WnVerif.Model.Doc
namespace WnVerif.Db
open WnVerif.Doc

structure RLexicon where
  rowid : Nat
  id : String
  label : String
  language : String
  email : String
  license : String
  version : String
  url : Option String
  citation : Option String
  logo : Option String
  md : Option Meta
  deriving DecidableEq, Repr, Inhabited

structure RDep where
  dependent : Nat
  pid : String
  pver : String
  purl : Option String
  provider : Option Nat
  deriving DecidableEq, Repr, Inhabited

structure RExt where
  ext : Nat
  bid : String
  bver : String
  burl : Option String
  base : Option Nat
  deriving DecidableEq, Repr, Inhabited

structure REntry where
  rowid : Nat
  id : String
  lex : Nat
  pos : String
  md : Option Meta
  deriving DecidableEq, Repr, Inhabited

structure RForm where
  rowid : Nat
  id : Option String
  lex : Nat
  entry : Nat
  form : String
  norm : Option String
  script : Option String
  rank : Nat
  deriving DecidableEq, Repr, Inhabited

structure RPron where
  form : Nat
  value : String
  variety : Option String
  notat : Option String
  phonemic : Bool
  audio : Option String
  deriving DecidableEq, Repr, Inhabited

structure RTag where
  form : Nat
  tag : String
  category : String
  deriving DecidableEq, Repr, Inhabited

structure RSynset where
  rowid : Nat
  id : String
  lex : Nat
  ili : Option Nat
  pos : String
  lexicalized : Bool
  lexfile : Option Nat
  md : Option Meta
  deriving DecidableEq, Repr, Inhabited

/-- rows of `synset_relations`, `sense_relations`, `sense_synset_relations` -/
structure RRel where
  rowid : Nat
  lex : Nat
  source : Nat
  target : Nat
  type : Nat
  md : Option Meta
  deriving DecidableEq, Repr, Inhabited

structure RDef where
  rowid : Nat
  lex : Nat
  synset : Nat
  text : String
  language : Option String
  sense : Option Nat
  md : Option Meta
  deriving DecidableEq, Repr, Inhabited

/-- rows of `sense_examples` / `synset_examples` -/
structure RExample where
  rowid : Nat
  lex : Nat
  owner : Nat
  text : String
  language : Option String
  md : Option Meta
  deriving DecidableEq, Repr, Inhabited

structure RSense where
  rowid : Nat
  id : String
  lex : Nat
  entry : Nat
  erank : Nat
  synset : Nat
  srank : Nat
  lexicalized : Bool
  md : Option Meta
  deriving DecidableEq, Repr, Inhabited

structure RAdj where
  sense : Nat
  adjposition : String
  deriving DecidableEq, Repr, Inhabited

structure RCount where
  rowid : Nat
  lex : Nat
  sense : Nat
  value : Int
  md : Option Meta
  deriving DecidableEq, Repr, Inhabited

structure RSb where
  rowid : Nat
  id : Option String
  lex : Nat
  frame : String
  deriving DecidableEq, Repr, Inhabited

structure RSbSense where
  sb : Nat
  sense : Nat
  deriving DecidableEq, Repr, Inhabited

structure RIli where
  rowid : Nat
  id : String
  status : Nat
  definition : Option String
  md : Option Meta
  deriving DecidableEq, Repr, Inhabited

structure RPIli where
  rowid : Nat
  synset : Nat
  definition : Option String
  md : Option Meta
  deriving DecidableEq, Repr, Inhabited

structure Db where
  lexicons : List RLexicon := []
  deps : List RDep := []
  exts : List RExt := []
  entries : List REntry := []
  forms : List RForm := []
  prons : List RPron := []
  tags : List RTag := []
  synsets : List RSynset := []
  synrels : List RRel := []
  defs : List RDef := []
  synexs : List RExample := []
  senses : List RSense := []
  senserels : List RRel := []
  sensesynrels : List RRel := []
  adjs : List RAdj := []
  sensexs : List RExample := []
  counts : List RCount := []
  sbs : List RSb := []
  sbsenses : List RSbSense := []
  ilis : List RIli := []
  pilis : List RPIli := []
  reltypes : List (Nat × String) := []
  /-- `_init_db` inserts the two built-in statuses -/
  ilistatuses : List (Nat × String) := [(1, "presupposed"), (2, "proposed")]
  lexfiles : List (Nat × String) := []
  deriving Repr, Inhabited

def Db.empty : Db := {}

/-- SQLite allocates `max(rowid) + 1` for `INTEGER PRIMARY KEY` without AUTOINCREMENT -/
def nextId (ids : List Nat) : Nat := ids.foldr max 0 + 1

/-- `INSERT OR IGNORE INTO <lookup> VALUES (null, ?)` -/
def lookupInsert (t : List (Nat × String)) (v : String) : List (Nat × String) :=
  if t.any (fun r => r.2 == v) then t else t ++ [(nextId (t.map (·.1)), v)]
def lookupId (t : List (Nat × String)) (v : String) : Option Nat :=
  (t.find? (fun r => r.2 == v)).map (·.1)
def lookupName (t : List (Nat × String)) (i : Nat) : Option String :=
  (t.find? (fun r => r.1 == i)).map (·.2)

/-- scalar sub-selects of `_add.py` (first matching row) -/
def entryRow (db : Db) (id : String) (lex : Nat) : Option Nat :=
  (db.entries.find? (fun r => r.id == id && r.lex == lex)).map (·.rowid)
def senseRow (db : Db) (id : String) (lex : Nat) : Option Nat :=
  (db.senses.find? (fun r => r.id == id && r.lex == lex)).map (·.rowid)
def synsetRow (db : Db) (id : String) (lex : Nat) : Option Nat :=
  (db.synsets.find? (fun r => r.id == id && r.lex == lex)).map (·.rowid)
def lexiconRow (db : Db) (id version : String) : Option Nat :=
  (db.lexicons.find? (fun r => r.id == id && r.version == version)).map (·.rowid)
/-- `FORM_QUERY`: `e.id = ? AND e.lexicon_rowid = ? AND (f.id = ? OR f.rank = ?)`;
`rank = none` stands for the `-1` used for external forms -/
def formRow (db : Db) (eid : String) (lex : Nat) (fid : Option String) (rank : Option Nat) : Option Nat :=
  match db.entries.find? (fun r => r.id == eid && r.lex == lex) with
  | none => none
  | some e =>
    (db.forms.find? (fun f => f.entry == e.rowid &&
      ((match fid, f.id with | some a, some b => a == b | _, _ => false) ||
       (match rank with | some k => f.rank == k | none => false)))).map (·.rowid)

/-! ### insertion-sorted, de-duplicated strings (`sorted(set(...))`) -/
def insertStr (a : String) : List String → List String
  | [] => [a]
  | b :: t => if a < b then a :: b :: t else if a == b then b :: t else b :: insertStr a t
def sortedSet (l : List String) : List String := l.foldr insertStr []

end WnVerif.Db
