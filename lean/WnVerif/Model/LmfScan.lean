/-
Header check (`_read_header`, `is_lmf`) and the regular-expression pre-scan
(`scan_lexicons`) of `wn/lmf.py`, on lists of characters.  The header constants are the
specification's; `Props/C20.lean` re-checks them against the values regenerated from the source.
-/
namespace WnVerif.LmfScan

def xmldecl : String := "<?xml version=\"1.0\" encoding=\"UTF-8\"?>"
def doctypeOf (v : String) : String :=
  "<!DOCTYPE LexicalResource SYSTEM \"http://globalwordnet.github.io/schemas/WN-LMF-" ++ v ++ ".dtd\">"
def versions : List String := ["1.0", "1.1", "1.2", "1.3"]

def isAsciiWs (c : Char) : Bool := c == ' ' || c == '\t' || c == '\n' || c == '\r' || c == '\x0b' || c == '\x0c'

/-- `bytes.rstrip()` -/
def rstrip (s : List Char) : List Char := (s.reverse.dropWhile isAsciiWs).reverse
/-- `.replace(b"'", b'"')` -/
def dq (s : List Char) : List Char := s.map (fun c => if c == '\'' then '"' else c)

/-- `_read_header` on the first two lines (as returned by `readline`, terminator included);
`none` = `LMFError` -/
def readHeader (line1 line2 : List Char) : Option String :=
  if dq (rstrip line1) != xmldecl.toList then none
  else versions.find? (fun v => dq (rstrip line2) == (doctypeOf v).toList)

/-- `is_xml`: the file starts with `<?xml ` -/
def isXml (line1 : List Char) : Bool := "<?xml ".toList.isPrefixOf line1

/-- `is_lmf` -/
def isLmf (line1 line2 : List Char) : Bool := isXml line1 && (readHeader line1 line2).isSome

/-! ### `scan_lexicons` -/

def isWord (c : Char) : Bool := c.isAlphanum || c == '_'

structure Info where
  id : String
  version : String
  label : Option String
  ext : Option (String × String)
  deriving DecidableEq, Repr

/-- `\b(id|version|label)=["']([^"']+)["']` anchored at the head of `s` (the caller checks the
left word boundary); returns (name, value, rest after the match) -/
def attrAt (s : List Char) : Option (String × String × List Char) :=
  let try1 (name : String) : Option (String × String × List Char) :=
    if name.toList.isPrefixOf s then
      match s.drop name.length with
      | '=' :: q :: rest =>
        if q == '"' || q == '\'' then
          let val := rest.takeWhile (fun c => c != '"' && c != '\'')
          match rest.drop val.length with
          | _ :: rest' => if val.isEmpty then none else some (name, String.ofList val, rest')
          | [] => none
        else none
      | _ => none
    else none
  (try1 "id").orElse (fun _ => (try1 "version").orElse (fun _ => try1 "label"))

/-- `attr_re.finditer(remainder)`: leftmost non-overlapping matches -/
def scanAttrs : Nat → Option Char → List Char → List (String × String)
  | 0, _, _ => []
  | _, _, [] => []
  | fuel+1, prev, c :: rest =>
    let boundary := match prev with | some p => !isWord p | none => true
    if boundary && isWord c then
      match attrAt (c :: rest) with
      | some (n, v, rest') => (n, v) :: scanAttrs fuel (some '"') rest'
      | none => scanAttrs fuel (some c) rest
    else scanAttrs fuel (some c) rest

/-- `<(Lexicon|LexiconExtension|Extends)\b([^>]*)>` anchored at `<` -/
def tagAt (s : List Char) : Option (String × List Char × List Char) :=
  let try1 (name : String) : Option (String × List Char × List Char) :=
    if ("<" ++ name).toList.isPrefixOf s then
      let after := s.drop (name.length + 1)
      let bnd := match after with | c :: _ => !isWord c | [] => true
      if bnd then
        let body := after.takeWhile (· != '>')
        match after.drop body.length with
        | _ :: rest => some (name, body, rest)
        | [] => none
      else none
    else none
  (try1 "Lexicon").orElse (fun _ => (try1 "LexiconExtension").orElse (fun _ => try1 "Extends"))

/-- all start tags of interest, in document order -/
def scanTags : Nat → List Char → List (String × List Char)
  | 0, _ => []
  | _, [] => []
  | fuel+1, c :: rest =>
    if c == '<' then
      match tagAt (c :: rest) with
      | some (n, body, rest') => (n, body) :: scanTags fuel rest'
      | none => scanTags fuel rest
    else scanTags fuel rest

/-- dict built from the attribute matches: a later match of a name overrides an earlier one -/
def lastOf (kvs : List (String × String)) (k : String) : Option String :=
  ((kvs.filter (fun e => e.1 == k)).getLast?).map (·.2)

/-- `scan_lexicons`; `none` = an exception (missing id / version, misplaced `<Extends>`) -/
def scanLexicons (text : List Char) : Option (List Info) :=
  (scanTags (text.length + 1) text).foldl (fun (acc : Option (List Info)) (tag : String × List Char) =>
    match acc with
    | none => none
    | some infos =>
      let attrs := scanAttrs (tag.2.length + 1) none tag.2
      match lastOf attrs "id", lastOf attrs "version" with
      | some id, some ver =>
        if tag.1 != "Extends" then some (infos ++ [{ id := id, version := ver, label := lastOf attrs "label", ext := none }])
        else match infos.reverse with
          | last :: before => some (before.reverse ++ [{ last with ext := some (id, ver) }])
          | [] => none
      | _, _ => none) (some [])

end WnVerif.LmfScan
