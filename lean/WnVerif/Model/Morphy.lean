/-
Model of `wn/morphy.py`.  Strings are `List Char` (Python `len`, slicing and
`endswith` work on code points).  The 24 detachment rules are part of the
specification: the model keeps its own copy and `Props/C17.lean` re-checks on
every run that it equals the table regenerated from the source (`Gen.morphy_rules`).
-/
namespace WnVerif.Morphy

abbrev Str := List Char

/-- the rules of the `WN` system, per part of speech, in source order -/
def rules : List (String × List (String × String)) := [
  ("n", [("s", ""), ("ces", "x"), ("ses", "s"), ("ves", "f"), ("ives", "ife"), ("xes", "x"),
         ("xes", "xis"), ("zes", "z"), ("ches", "ch"), ("shes", "sh"), ("men", "man"), ("ies", "y")]),
  ("v", [("s", ""), ("ies", "y"), ("es", "e"), ("es", ""), ("ed", "e"), ("ed", ""),
         ("ing", "e"), ("ing", "")]),
  ("a", [("er", ""), ("est", ""), ("er", "e"), ("est", "e")]),
  ("r", []),
  ("s", [("er", ""), ("est", ""), ("er", "e"), ("est", "e")])]

/-- keys of `DETACHMENT_RULES` in dict order -/
def posOrder : List String := ["n", "v", "a", "r", "s"]

def rulesFor (pos : String) : List (Str × Str) :=
  match rules.find? (fun r => r.1 == pos) with
  | some r => r.2.map (fun sr => (sr.1.toList, sr.2.toList))
  | none => []

/-- a word as `Morphy.__init__` sees it: part of speech and `word.forms()` (lemma first) -/
structure Word where
  pos : String
  forms : List Str

/-- `all_lemmas[pos]` -/
def lemmas (ws : List Word) (pos : String) : List Str :=
  ws.filterMap (fun w => if w.pos == pos then w.forms.head? else none)

/-- `exceptions[pos].get(form, set())`: lemmas of the words of `pos` listing `form`
among their other forms -/
def exceptionsOf (ws : List Word) (pos : String) (form : Str) : List Str :=
  ws.filterMap (fun w =>
    match w.forms with
    | lemma :: others => if w.pos == pos && others.contains form then some lemma else none
    | [] => none)

/-- one detachment rule: `form.endswith(suffix) and len(suffix) < len(form)` -/
def applyRule (form : Str) (rule : Str × Str) : Option Str :=
  if rule.1.isSuffixOf form && rule.1.length < form.length
  then some (form.take (form.length - rule.1.length) ++ rule.2) else none

/-- `_morphstr`; `init = none` is the uninitialised lemmatizer -/
def morphstr (init : Option (List Word)) (form : Str) (pos : String) : List Str :=
  match init with
  | some ws =>
    (if (lemmas ws pos).contains form then [form] else []) ++
    exceptionsOf ws pos form ++
    (rulesFor pos).filterMap (fun r =>
      match applyRule form r with
      | some c => if (lemmas ws pos).contains c then some c else none
      | none => none)
  | none => (rulesFor pos).filterMap (applyRule form)

/-- `__call__`: association list part-of-speech ↦ candidate set (as a list, possibly
with repetitions; compared as sets).  Keys: `none` = the `None` key. -/
def call (init : Option (List Word)) (form : Str) (pos : Option String) :
    List (Option String × List Str) :=
  let first : List (Option String × List Str) :=
    if init.isSome then [] else [(pos, [form])]
  let posList : List String :=
    match pos with
    | none => posOrder
    | some p => if posOrder.contains p then [p] else []
  let noPosForms : List Str :=
    if init.isNone && pos.isNone then [form] else []
  first ++ posList.filterMap (fun p =>
    let cands := (morphstr init form p).filter (fun c => !noPosForms.contains c)
    if cands.isEmpty then none else some (some p, cands))

/-- the candidate set reported for key `k` (union over the entries with that key) -/
def resultFor (r : List (Option String × List Str)) (k : Option String) : List Str :=
  (r.filter (fun e => e.1 == k)).flatMap (·.2)

end WnVerif.Morphy
