/-
Layer B — `remove()` of `wn/_add.py` with the cascade of `schema.sql`
(`ON DELETE CASCADE` through every owned table, `SET NULL` on
`lexicon_dependencies.provider_rowid` and `definitions.sense_rowid`), and `_add_ili`.
-/
import WnVerif.Model.Db
namespace WnVerif.Db

/-- `get_lexicon_extensions(rowid)`: transitive extensions, nearest first
(`WITH RECURSIVE … UNION … ORDER BY d`) -/
def extensionsOf (db : Db) (fuel : Nat) (rowid : Nat) : List Nat :=
  let rec go : Nat → List Nat → List Nat → List Nat
    | 0, _, acc => acc
    | f+1, frontier, acc =>
      let next := frontier.flatMap (fun b => (db.exts.filter (fun e => e.base == some b)).map (·.ext))
      let fresh := (next.filter (fun x => !acc.contains x)).eraseDups
      if fresh.isEmpty then acc else go f fresh (acc ++ fresh)
  go fuel [rowid] []

def basesOf (db : Db) (fuel : Nat) (rowid : Nat) : List Nat :=
  let rec go : Nat → List Nat → List Nat → List Nat
    | 0, _, acc => acc
    | f+1, frontier, acc =>
      let next := frontier.flatMap (fun x => (db.exts.filter (fun e => e.ext == x)).filterMap (·.base))
      let fresh := (next.filter (fun x => !acc.contains x)).eraseDups
      if fresh.isEmpty then acc else go f fresh (acc ++ fresh)
  go fuel [rowid] []

/-! `DELETE FROM lexicons WHERE rowid = l` with foreign keys on: the rowids that the cascade reaches -/
def entriesDel (db : Db) (l : Nat) : List Nat := (db.entries.filter (fun r => r.lex == l)).map (·.rowid)
def synsetsDel (db : Db) (l : Nat) : List Nat := (db.synsets.filter (fun r => r.lex == l)).map (·.rowid)
def formGone (db : Db) (l : Nat) (r : RForm) : Bool := r.lex == l || (entriesDel db l).contains r.entry
def formsDel (db : Db) (l : Nat) : List Nat := (db.forms.filter (formGone db l)).map (·.rowid)
def senseGone (db : Db) (l : Nat) (r : RSense) : Bool :=
  r.lex == l || (entriesDel db l).contains r.entry || (synsetsDel db l).contains r.synset
def sensesDel (db : Db) (l : Nat) : List Nat := (db.senses.filter (senseGone db l)).map (·.rowid)
def sbsDel (db : Db) (l : Nat) : List Nat := (db.sbs.filter (fun r => r.lex == l)).map (·.rowid)
/-- `ON DELETE SET NULL` of `lexicon_dependencies.provider_rowid` -/
def unlinkProvider (l : Nat) (r : RDep) : RDep := if r.provider == some l then { r with provider := none } else r
/-- `ON DELETE SET NULL` of `definitions.sense_rowid` -/
def unlinkSense (gone : List Nat) (r : RDef) : RDef :=
  match r.sense with
  | some s => if gone.contains s then { r with sense := none } else r
  | none => r

def deleteLexicon (db : Db) (l : Nat) : Db :=
  { db with
    lexicons := db.lexicons.filter (fun r => r.rowid != l)
    deps := (db.deps.filter (fun r => r.dependent != l)).map (unlinkProvider l)
    exts := db.exts.filter (fun r => r.ext != l)
    entries := db.entries.filter (fun r => r.lex != l)
    forms := db.forms.filter (fun r => !formGone db l r)
    prons := db.prons.filter (fun r => !(formsDel db l).contains r.form)
    tags := db.tags.filter (fun r => !(formsDel db l).contains r.form)
    synsets := db.synsets.filter (fun r => r.lex != l)
    synrels := db.synrels.filter (fun r => !(r.lex == l || (synsetsDel db l).contains r.source || (synsetsDel db l).contains r.target))
    defs := (db.defs.filter (fun r => !(r.lex == l || (synsetsDel db l).contains r.synset))).map (unlinkSense (sensesDel db l))
    synexs := db.synexs.filter (fun r => !(r.lex == l || (synsetsDel db l).contains r.owner))
    senses := db.senses.filter (fun r => !senseGone db l r)
    senserels := db.senserels.filter (fun r => !(r.lex == l || (sensesDel db l).contains r.source || (sensesDel db l).contains r.target))
    sensesynrels := db.sensesynrels.filter (fun r => !(r.lex == l || (sensesDel db l).contains r.source || (synsetsDel db l).contains r.target))
    adjs := db.adjs.filter (fun r => !(sensesDel db l).contains r.sense)
    sensexs := db.sensexs.filter (fun r => !(r.lex == l || (sensesDel db l).contains r.owner))
    counts := db.counts.filter (fun r => !(r.lex == l || (sensesDel db l).contains r.sense))
    sbs := db.sbs.filter (fun r => r.lex != l)
    sbsenses := db.sbsenses.filter (fun r => !((sbsDel db l).contains r.sb || (sensesDel db l).contains r.sense))
    pilis := db.pilis.filter (fun r => !(synsetsDel db l).contains r.synset) }

/-- one matched lexicon of `remove()`: its (transitive) extensions deepest first, then itself -/
def removeLexicon (db : Db) (l : Nat) : Db :=
  let exts := extensionsOf db (db.lexicons.length + 1) l
  deleteLexicon (exts.reverse.foldl deleteLexicon db) l

/-- `_add_ili`: status lookup insert (sorted), then upsert of status and definition only -/
structure IliRow where
  ili : String
  status : Option String := none
  definition : Option String := none
  deriving Repr

/-- one row of the `INSERT … ON CONFLICT(id) DO UPDATE SET status_rowid, definition` -/
def iliStep (db : Db) (r : IliRow) : Db :=
  let st := (lookupId db.ilistatuses (r.status.getD "active")).getD 0
  if db.ilis.any (fun x => x.id == r.ili) then
    { db with ilis := db.ilis.map (fun x => if x.id == r.ili then { x with status := st, definition := r.definition } else x) }
  else
    let row : RIli := { rowid := nextId (db.ilis.map (·.rowid)), id := r.ili, status := st, definition := r.definition, md := none }
    { db with ilis := db.ilis ++ [row] }

def addIliStatuses (db : Db) (rows : List IliRow) : Db :=
  { db with ilistatuses := (sortedSet (rows.map (fun r => r.status.getD "active"))).foldl lookupInsert db.ilistatuses }

def addIli (db : Db) (rows : List IliRow) : Db := rows.foldl iliStep (addIliStatuses db rows)

/-- `_ili.load`: header-driven TSV; `dict(zip(fields, values))` truncates to the shorter list -/
def splitTab (s : String) : List String := s.splitOn "\t"

def parseIli (lines : List String) : List IliRow :=
  match lines with
  | [] => []
  | header :: rest =>
    let fields := (splitTab header).map String.toLower
    rest.map (fun line =>
      let kv := fields.zip (splitTab line)
      let get (k : String) : Option String := (kv.find? (fun e => e.1 == k)).map (·.2)
      { ili := (get "ili").getD "", status := get "status", definition := get "definition" })

end WnVerif.Db
