/-
Model of `wn/similarity.py` over exact rationals.  `-log` is kept symbolic:
`lch`, `res`, `jcn`, `lin` return the rational argument(s) of the logarithm.
-/
import WnVerif.Model.Graph
namespace WnVerif.Sim
open WnVerif.Graph

/-- `_check_if_pos_compatible` -/
def posCompatible (p1 p2 : String) : Bool :=
  (if p1 == "s" then "a" else p1) == (if p2 == "s" then "a" else p2)

/-- `path`: `1 / (distance + 1)`, `0` when unconnected -/
def pathQ (dist : Option Nat) : Rat :=
  match dist with
  | none => 0
  | some d => 1 / ((d : Rat) + 1)

/-- `wup` formula `(2k) / (i + j + 2k)` -/
def wupQ (i j k : Nat) : Rat := (2 * (k : Rat)) / ((i : Rat) + j + 2 * k)

/-- argument of `-log` in `lch`: `(distance + 1) / (2 * max_depth)` -/
def lchArg (d maxDepth : Nat) : Rat := ((d : Rat) + 1) / (2 * (maxDepth : Rat))

inductive Res (α : Type) where
  | ok (v : α)
  | error
  deriving Repr

def path (g : Adj) (fuel : Nat) (pos : Nat → String) (a b : Nat) (simRoot : Bool) : Res Rat :=
  if !posCompatible (pos a) (pos b) then .error else
  .ok (pathQ ((shortestPath g fuel (some a) (some b) simRoot).map List.length))

/-- `wup`: first element of `lowest_common_hypernyms`, path lengths to it,
`lcs.max_depth() + 1` (without simulated root, as written) -/
def wup (g : Adj) (fuel : Nat) (pos : Nat → String) (a b : Nat) (simRoot : Bool) : Res Rat :=
  if !posCompatible (pos a) (pos b) then .error else
  match lowestCommonHypernyms g fuel (some a) (some b) simRoot with
  | [] => .error
  | lcs :: _ =>
    match shortestPath g fuel (some a) lcs simRoot, shortestPath g fuel (some b) lcs simRoot with
    | some p1, some p2 => .ok (wupQ p1.length p2.length (maxDepth g fuel lcs false + 1))
    | _, _ => .error

def lch (g : Adj) (fuel : Nat) (pos : Nat → String) (a b : Nat) (maxD : Nat) (simRoot : Bool) : Res Rat :=
  if !posCompatible (pos a) (pos b) then .error else
  match shortestPath g fuel (some a) (some b) simRoot with
  | none => .error
  | some p => if maxD == 0 then .error else .ok (lchArg p.length maxD)

/-- `_most_informative_lcs`: first maximum of the weight among the lowest
common hypernyms (no simulated root) -/
def mostInformativeLcs (g : Adj) (fuel : Nat) (w : Nat → Rat) (a b : Nat) : Option Nat :=
  match (lowestCommonHypernyms g fuel (some a) (some b) false).filterMap id with
  | [] => none
  | c :: t => some (t.foldl (fun m x => if w m < w x then x else m) c)

end WnVerif.Sim
