/-
Model of `wn/_export.py`: `_export_lexicon` and helpers over the layer-B queries (as
repaired: subcat links for every version, proposed ILIs without definition, frame order
following the senses).  The result is the `lmf.Lexicon` dictionary handed to `lmf.dump`.
-/
import WnVerif.Model.Query
import WnVerif.Model.Lmf
namespace WnVerif.Db
open WnVerif.Doc

def mdOrEmpty (m : Option Meta) : Option Meta := some (m.getD [])      -- `get_metadata(...) or {}`

def exportTags (db : Db) (form : Nat) : List Tag := (formTags db form).map (fun t => { text := t.tag, category := t.category })
def exportProns (db : Db) (form : Nat) : List Pron :=
  (formProns db form).map (fun p => { text := p.value, variety := p.variety, notat := p.notat, phonemic := some p.phonemic, audio := p.audio })

/-- `sbmap`: sense id ↦ [(frame id, frame)] in `find_syntactic_behaviours` order -/
def sbMap (db : Db) (lexids : List Nat) (sid : String) : List (Option String × String) :=
  (findSbs db lexids).filterMap (fun (id, frame, sids) => if sids.contains sid then some (id, frame) else none)

def exportSenseRelations (db : Db) (sense : Nat) (lexids : List Nat) : List Relation :=
  (senseRelations db sense ["*"] lexids).map (fun r => { target := r.target.id, relType := r.name, md := r.md }) ++
  (senseSynsetRelations db sense ["*"] lexids).map (fun r => { target := r.target.id, relType := r.name, md := r.md })

def exportSenses (db : Db) (entry : Nat) (lexids : List Nat) (v11 : Bool) : List Sense :=
  (entrySenses db entry lexids).map (fun s =>
    let row := db.senses.find? (fun r => r.rowid == s.rowid)
    let sb := sbMap db lexids s.id
    { id := s.id, synset := s.synsetId,
      relations := exportSenseRelations db s.rowid lexids,
      examples := (senseExamples db s.rowid lexids).map (fun x => { text := x.text, language := x.language, md := mdOrEmpty x.md }),
      counts := (senseCounts db s.rowid lexids).map (fun c => { value := c.value, md := mdOrEmpty c.md }),
      lexicalized := some ((row.map (·.lexicalized)).getD false),
      adjposition := some ((adjposition db s.rowid).getD ""),
      md := mdOrEmpty (row.bind (·.md)),
      subcat := if v11 && !sb.isEmpty then sortedSet (sb.filterMap (fun e => match e.1 with | some i => if i != "" then some i else none | none => none)) else [] })

/-- `_export_syntactic_behaviours_1_0`: frames of an entry, in first-sense order; senses sorted -/
def exportFrames10 (db : Db) (lexids : List Nat) (senses : List Sense) : List Frame :=
  let pairs := senses.flatMap (fun s => (sbMap db lexids s.id).map (fun e => (e.2, s.id)))
  (dedupBy id (pairs.map (·.1))).map (fun fr =>
    { frame := fr, senses := sortedSet ((pairs.filter (fun p => p.1 == fr)).map (·.2)) })

def exportEntries (db : Db) (lexids : List Nat) (v11 : Bool) : List Entry :=
  (findEntries db none [] none lexids false true).map (fun w =>
    let lemmaForm := w.forms.head?
    let senses := exportSenses db w.rowid lexids v11
    let lemma : Lemma := match lemmaForm with
      | some f => { form := f.form, pos := w.pos, script := some (f.script.getD ""), tags := exportTags db f.rowid,
                    prons := if v11 then exportProns db f.rowid else [] }
      | none => {}
    { id := w.id, lemma := some lemma,
      forms := (w.forms.drop 1).map (fun f =>
        { id := some (f.id.getD ""), form := f.form, script := some (f.script.getD ""), tags := exportTags db f.rowid,
          prons := if v11 then exportProns db f.rowid else [] }),
      senses := senses,
      md := mdOrEmpty ((db.entries.find? (fun e => e.rowid == w.rowid)).bind (·.md)),
      frames := if v11 then [] else exportFrames10 db lexids senses })

def exportSynsets (db : Db) (lexids : List Nat) (v11 : Bool) : List Synset :=
  (findSynsets db none [] none none lexids false true).map (fun y =>
    let row := db.synsets.find? (fun r => r.rowid == y.rowid)
    let pili := db.pilis.find? (fun p => p.synset == y.rowid)
    let ilidef : Option IliDef := match pili with
      | some p => (match p.definition with
          | some d => if d != "" then some { text := d, md := mdOrEmpty p.md } else none
          | none => none)
      | none => none
    let ili := match y.ili with
      | some i => if i != "" then i else (if pili.isSome then "in" else "")
      | none => if pili.isSome then "in" else ""
    { id := y.id, ili := ili, pos := some y.pos,
      definitions := (definitions db y.rowid lexids).map (fun d =>
        { text := d.1, language := d.2.1, sourceSense := d.2.2.1,
          md := mdOrEmpty ((db.defs.find? (fun r => r.rowid == d.2.2.2)).bind (·.md)) }),
      relations := (synsetRelations db [y.rowid] ["*"] lexids).map (fun r => { target := r.target.id, relType := r.name, md := r.md }),
      examples := (synsetExamples db y.rowid lexids).map (fun x => { text := x.text, language := x.language, md := mdOrEmpty x.md }),
      lexicalized := some ((row.map (·.lexicalized)).getD false),
      lexfile := some ((lexfileOf db y.rowid).getD ""),
      md := mdOrEmpty (row.bind (·.md)),
      iliDef := ilidef,
      members := if v11 then (synsetMembers db y.rowid lexids).map (·.id) else [] })

/-- `_export_lexicon` -/
def exportLexicon (db : Db) (l : RLexicon) (v : String) : Lexicon :=
  let lexids := [l.rowid]
  let v11 := Lmf.atLeast11 v
  { id := l.id, label := l.label, language := l.language, email := l.email, license := l.license, version := l.version,
    url := some (l.url.getD ""), citation := some (l.citation.getD ""),
    entries := exportEntries db lexids v11, synsets := exportSynsets db lexids v11, md := mdOrEmpty l.md,
    logo := if v11 then some (l.logo.getD "") else none,
    requires := if v11 then (db.deps.filter (fun d => d.dependent == l.rowid)).map (fun d => { id := d.pid, version := d.pver, url := d.purl }) else [],
    frames := if v11 then (findSbs db lexids).map (fun (id, frame, _) => { id := some (id.getD ""), frame := frame }) else [] }

/-- `_precheck`: identifiers (lexicon id, entry, sense and synset ids) must not repeat across
the exported lexicons -/
def exportPrecheck (db : Db) (ls : List RLexicon) : Bool :=
  let idsets := ls.map (fun l =>
    let lexids := [l.rowid]
    (l.id :: ((findEntries db none [] none lexids false true).map (·.id) ++
      (findSenses db none [] none lexids false true).map (·.id) ++
      (findSynsets db none [] none none lexids false true).map (·.id))).eraseDups)
  let rec go : List (List String) → List String → Bool
    | [], _ => true
    | s :: rest, seen => if s.any (fun x => seen.contains x) then false else go rest (seen ++ s)
  go idsets []

/-- `export(lexicons, version)`; `none` = `wn.Error` from the precheck -/
def exportResource (db : Db) (ls : List RLexicon) (v : String) : Option Resource :=
  if exportPrecheck db ls then some { version := v, lexicons := ls.map (fun l => exportLexicon db l v) } else none

end WnVerif.Db
