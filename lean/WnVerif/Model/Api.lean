/-
The public API of `wn/_core.py` over layer B: `Wordnet.__init__`, `_find_helper`, the
entity methods of `Word`, `Sense`, `Synset` (navigation, relations, expansion through ILI,
translation).  `none` results stand for `wn.Error`.
-/
import WnVerif.Model.Query
import WnVerif.Model.Glob
namespace WnVerif.Db
open WnVerif.Glob

structure Wordnet where
  lexids : List Nat
  expids : List Nat
  defaultMode : Bool
  normalizer : Bool := true
  allForms : Bool := true
  /-- specifiers of declared dependencies that are not installed (the `WnWarning`) -/
  missing : List String := []
  deriving Repr

def truthy (s : Option String) : Bool := match s with | some x => x != "" | none => false

/-- `Wordnet.__init__`; `none` = `wn.Error` from `find_lexicons` -/
def mkWordnet (db : Db) (lexicon lang expand : Option String) (normalizer allForms : Bool := true) :
    Option Wordnet :=
  let defaultMode := !truthy lexicon && !truthy lang
  match findLexicons db (if truthy lexicon then lexicon.getD "*" else "*") lang with
  | none => none
  | some lexs =>
    let lexids := lexs.map (·.rowid)
    let deps := lexids.flatMap (fun l => db.deps.filter (fun d => d.dependent == l))
    let missing := if expand.isNone && !defaultMode
      then (deps.filter (fun d => d.provider.isNone)).map (fun d => d.pid ++ ":" ++ d.pver) else []
    let expandStr : String :=
      match expand with
      | some e => e
      | none =>
        if defaultMode then "*"
        else " ".intercalate ((deps.filter (fun d => d.provider.isSome)).map (fun d => d.pid ++ ":" ++ d.pver))
    if expandStr == "" then
      some { lexids := lexids, expids := [], defaultMode := defaultMode, normalizer := normalizer,
             allForms := allForms, missing := missing }
    else
      match findLexicons db expandStr none with
      | none => none
      | some ex => some { lexids := lexids, expids := ex.map (·.rowid), defaultMode := defaultMode,
                          normalizer := normalizer, allForms := allForms, missing := missing }

/-- `_LexiconElement._get_lexicon_ids` -/
def entityLexids (db : Db) (w : Wordnet) (lex : Nat) : List Nat :=
  if w.defaultMode then
    let n := db.lexicons.length + 1
    [lex] ++ basesOf db n lex ++ extensionsOf db n lex
  else w.lexids

/-! ### `_find_helper` -/

/-- a lemmatizer result: `dict[pos, set[form]]` in insertion order -/
abbrev LemResult := List (Option String × List String)

def dedupRowid {α} (rowid : α → Nat) (l : List α) : List α := dedupBy rowid l

/-- `_find_helper` for words; `norm` is the Wordnet's normalizer function -/
def findHelper {α} (query : List String → Option String → List α) (rowid : α → Nat)
    (w : Wordnet) (norm : String → String) (lemmatize : Option (String → Option String → LemResult))
    (form : String) (pos : Option String) : List α :=
  let proposals : LemResult :=
    match lemmatize with
    | some f => let r := f form pos; if r.isEmpty then [(pos, [form])] else r
    | none => [(pos, [form])]
  let first := proposals.flatMap (fun (p, fs) => query fs p)
  let results :=
    if first.isEmpty && w.normalizer then proposals.flatMap (fun (p, fs) => query (fs.map norm) p)
    else first
  dedupRowid rowid results

def words (db : Db) (w : Wordnet) (norm : String → String)
    (lemmatize : Option (String → Option String → LemResult)) (form : Option String) (pos : Option String) :
    List WordData :=
  match form with
  | none => findEntries db none [] pos w.lexids false w.allForms
  | some f => findHelper (fun fs p => findEntries db none fs p w.lexids w.normalizer w.allForms) (·.rowid)
      w norm lemmatize f pos

def senses (db : Db) (w : Wordnet) (norm : String → String)
    (lemmatize : Option (String → Option String → LemResult)) (form : Option String) (pos : Option String) :
    List SenseData :=
  match form with
  | none => findSenses db none [] pos w.lexids false w.allForms
  | some f => findHelper (fun fs p => findSenses db none fs p w.lexids w.normalizer w.allForms) (·.rowid)
      w norm lemmatize f pos

def synsets (db : Db) (w : Wordnet) (norm : String → String)
    (lemmatize : Option (String → Option String → LemResult)) (form : Option String) (pos : Option String)
    (ili : Option String) : List SynsetData :=
  match form with
  | none => findSynsets db none [] pos ili w.lexids false w.allForms
  | some f => findHelper (fun fs p => findSynsets db none fs p ili w.lexids w.normalizer w.allForms) (·.rowid)
      w norm lemmatize f pos

/-- `Wordnet.word(id)` / `sense(id)` / `synset(id)`: first match, `none` = `wn.Error` -/
def wordById (db : Db) (w : Wordnet) (id : String) : Option WordData :=
  (findEntries db (some id) [] none w.lexids false w.allForms).head?
def senseById (db : Db) (w : Wordnet) (id : String) : Option SenseData :=
  (findSenses db (some id) [] none w.lexids false w.allForms).head?
def synsetById (db : Db) (w : Wordnet) (id : String) : Option SynsetData :=
  (findSynsets db (some id) [] none none w.lexids false w.allForms).head?

/-! ### navigation -/

def wordSenses (db : Db) (w : Wordnet) (x : WordData) : List SenseData :=
  entrySenses db x.rowid (entityLexids db w x.lex)
def synsetSenses (db : Db) (w : Wordnet) (x : SynsetData) : List SenseData :=
  synsetMembers db x.rowid (entityLexids db w x.lex)
/-- `Sense.word()` / `Sense.synset()`: re-query by id within the Wordnet -/
def senseWord (db : Db) (w : Wordnet) (s : SenseData) : Option WordData := wordById db w s.entryId
def senseSynset (db : Db) (w : Wordnet) (s : SenseData) : Option SynsetData := synsetById db w s.synsetId

/-! ### relations -/

/-- a synset as returned by relation traversal: a stored one, or the `*INFERRED*` placeholder
carrying only an ILI (rowid 0) -/
def inferred (ili : String) (lex : Nat) : SynsetData := ⟨"*INFERRED*", "", some ili, lex, 0⟩

/-- `Synset._iter_local_relations` -/
def localSynsetRelations (db : Db) (w : Wordnet) (x : SynsetData) (types : List String) :
    List (RelData SynsetData) :=
  if x.rowid == 0 then [] else synsetRelations db [x.rowid] types (entityLexids db w x.lex)

/-- `Synset._iter_expanded_relations`: (relation with the expand lexicon's source/target ids,
source id string, resolved target) -/
def expandedSynsetRelations (db : Db) (w : Wordnet) (x : SynsetData) (types : List String) :
    List (RelData SynsetData × String × SynsetData) :=
  match x.ili with
  | none => []
  | some ili =>
    if w.expids.isEmpty then [] else
    let lexids := entityLexids db w x.lex
    let srcs := (findSynsets db none [] none (some ili) w.expids false true).filter
      (fun s => s.rowid != x.rowid && s.rowid != 0)
    let rels := synsetRelations db (srcs.map (·.rowid)) types w.expids
    rels.flatMap (fun r =>
      match r.target.ili with
      | none => []
      | some tili =>
        let srcId := ((srcs.find? (fun s => s.rowid == r.source)).map (·.id)).getD ""
        let locals := synsetsForIlis db [tili] lexids
        if locals.isEmpty then [(r, srcId, inferred tili x.lex)]
        else locals.map (fun l => (r, srcId, l)))

/-- `(Relation, target)` pairs of `Synset._iter_relations`; the relation is reported as
(name, source id, target id, lexicon, metadata) -/
structure RelObs where
  name : String
  sourceId : String
  targetId : String
  lexicon : String
  md : Option Doc.Meta
  deriving DecidableEq, Repr

def synsetIterRelations (db : Db) (w : Wordnet) (x : SynsetData) (types : List String) :
    List (RelObs × SynsetData) :=
  (localSynsetRelations db w x types).map (fun r => (⟨r.name, x.id, r.target.id, r.lexicon, r.md⟩, r.target)) ++
  (expandedSynsetRelations db w x types).map (fun (r, src, tgt) => (⟨r.name, src, r.target.id, r.lexicon, r.md⟩, tgt))

/-- `relation_map()`: `dict(iterable of (Relation, target))`.  `Relation` keys compare by
(name, source id, target id, lexicon, dc:type); a repeated key keeps the first key object
(hence the first relation's metadata) and the last target. -/
def relKey (r : RelObs) : (String × String × String × String × Option String) :=
  (r.name, r.sourceId, r.targetId, r.lexicon,
   match r.md with | some m => (m.find? (fun kv => kv.1 == "type")).map (·.2) | none => none)

def relationMap {τ} (l : List (RelObs × τ)) : List (RelObs × τ) :=
  l.foldl (fun acc (p : RelObs × τ) =>
    if acc.any (fun q => relKey q.1 == relKey p.1)
    then acc.map (fun q => if relKey q.1 == relKey p.1 then (q.1, p.2) else q)
    else acc ++ [p]) []

/-- identity of synsets in dict/set use: `__eq__` by rowid, `__hash__` by (ili, lexid, rowid) -/
def synKey (s : SynsetData) : (Option String × Nat × Nat) := (s.ili, s.lex, s.rowid)

/-- `Synset.get_related(*types)`: `unique_list` of the targets -/
def synsetGetRelated (db : Db) (w : Wordnet) (x : SynsetData) (types : List String) : List SynsetData :=
  dedupBy synKey ((synsetIterRelations db w x types).map (·.2))

/-- `Synset.relations(*types)`: relation name ↦ targets, names in first-occurrence order -/
def synsetRelationsMap (db : Db) (w : Wordnet) (x : SynsetData) (types : List String) :
    List (String × List SynsetData) :=
  let prs := synsetIterRelations db w x types
  (dedupBy id (prs.map (·.1.name))).map (fun n =>
    (n, dedupBy synKey ((prs.filter (fun p => p.1.name == n)).map (·.2))))

def senseIterRelations (db : Db) (w : Wordnet) (s : SenseData) (types : List String) :
    List (RelObs × SenseData) :=
  (senseRelations db s.rowid types (entityLexids db w s.lex)).map
    (fun r => (⟨r.name, s.id, r.target.id, r.lexicon, r.md⟩, r.target))
def senseIterSynsetRelations (db : Db) (w : Wordnet) (s : SenseData) (types : List String) :
    List (RelObs × SynsetData) :=
  (senseSynsetRelations db s.rowid types (entityLexids db w s.lex)).map
    (fun r => (⟨r.name, s.id, r.target.id, r.lexicon, r.md⟩, r.target))

def senseGetRelated (db : Db) (w : Wordnet) (s : SenseData) (types : List String) : List SenseData :=
  dedupBy (·.rowid) ((senseIterRelations db w s types).map (·.2))
def senseGetRelatedSynsets (db : Db) (w : Wordnet) (s : SenseData) (types : List String) : List SynsetData :=
  dedupBy synKey ((senseIterSynsetRelations db w s types).map (·.2))

/-- `_Relatable.closure(*types)` over `get_related`, visited by entity identity; fuel =
number of stored synsets + 2 rounds of the queue is not enough in general, so the fuel counts
queue pops: every pop either discards a visited entity or visits a new one -/
def closureGen {α κ} [BEq κ] (related : α → List α) (key : α → κ) : Nat → List α → List κ → List α → List α
  | 0, _, _, acc => acc.reverse
  | _, [], _, acc => acc.reverse
  | f+1, x :: q, seen, acc =>
    if seen.contains (key x) then closureGen related key f q seen acc
    else closureGen related key f (q ++ related x) (key x :: seen) (x :: acc)

def synsetClosure (db : Db) (w : Wordnet) (x : SynsetData) (types : List String) (n : Nat) : List SynsetData :=
  closureGen (fun y => synsetGetRelated db w y types) synKey (n * n + n + 2) (synsetGetRelated db w x types) [] []

def senseClosure (db : Db) (w : Wordnet) (x : SenseData) (types : List String) (n : Nat) : List SenseData :=
  closureGen (fun y => senseGetRelated db w y types) (·.rowid) (n * n + n + 2) (senseGetRelated db w x types) [] []

/-- `relation_paths` on synsets (`visited` is a Python set of Synsets: membership by hash
(ili, lexid, rowid) and `==` by rowid) -/
def synPathsExtend (related : SynsetData → List SynsetData) : Nat → List (Option String × Nat × Nat) → SynsetData → List (List SynsetData)
  | 0, _, _ => []
  | f+1, vis, x =>
    let nxt := (related x).filter (fun t => !vis.contains (synKey t))
    if nxt.isEmpty then [[]]
    else nxt.flatMap (fun t => (synPathsExtend related f (synKey t :: vis) t).map (t :: ·))

def synsetRelationPaths (db : Db) (w : Wordnet) (x : SynsetData) (types : List String) (n : Nat) : List (List SynsetData) :=
  let related := fun y => synsetGetRelated db w y types
  ((related x).filter (fun t => t.rowid != x.rowid)).reverse.flatMap
    (fun t => (synPathsExtend related n [synKey t, synKey x] t).map (t :: ·))

/-- `Synset.translate(lexicon, lang)`: synsets of a fresh Wordnet sharing the ILI -/
def synsetTranslate (db : Db) (x : SynsetData) (lexicon lang : Option String) : Option (List SynsetData) :=
  match x.ili with
  | none => some []
  | some ili =>
    if ili == "" then some [] else
    (mkWordnet db lexicon lang none).map (fun w => findSynsets db none [] none (some ili) w.lexids false w.allForms)

end WnVerif.Db
