/-
Model of the WN-LMF serializer and loader of `wn/lmf.py` at the level of XML trees:
`dumpTree v r` transcribes `dump` / `_dump_lexicon` / `_dump_lexical_entry` / `_dump_synset`
and the `_build_*` helpers with their version gates; `loadTree v t` transcribes the expat
handlers (element tables, single-valued children, metadata extraction, text normalisation is
the tokenizer's side) followed by `_validate_*`.  Attribute names in the Dublin-Core namespace
of the document's version are written `dc:<name>`.  expat's tokenisation (bytes → events) and
ElementTree's printer are not modelled; see `escAttr` / `unescAttr` for the character level.
-/
import WnVerif.Model.Doc
namespace WnVerif.Lmf
open WnVerif.Doc

inductive Xml where
  | elem (name : String) (attrs : List (String × String)) (text : String) (children : List Xml)
  deriving Repr, Inhabited

def Xml.name : Xml → String | .elem n _ _ _ => n
def Xml.attrs : Xml → List (String × String) | .elem _ a _ _ => a
def Xml.text : Xml → String | .elem _ _ t _ => t
def Xml.children : Xml → List Xml | .elem _ _ _ c => c

def atLeast11 (v : String) : Bool := v != "1.0"

def dcKeys : List String := ["contributor", "coverage", "creator", "date", "description", "format",
  "identifier", "publisher", "relation", "rights", "source", "subject", "title", "type"]
def plainMetaKeys : List String := ["status", "note"]

def truthy (o : Option String) : Bool := match o with | some s => s != "" | none => false
def optAttr (k : String) (o : Option String) : List (String × String) :=
  match o with | some s => if s != "" then [(k, s)] else [] | none => []

/-- `_meta_dict`: Dublin-Core keys in table order, then status, note (when non-empty), then
`confidenceScore` whenever the key is present -/
def metaAttrs (m : Option Meta) : List (String × String) :=
  match m with
  | none => []
  | some kv =>
    let get (k : String) : Option String := (kv.find? (fun e => e.1 == k)).map (·.2)
    dcKeys.flatMap (fun k => optAttr ("dc:" ++ k) (get k)) ++
    plainMetaKeys.flatMap (fun k => optAttr k (get k)) ++
    (match get "confidenceScore" with | some s => [("confidenceScore", s)] | none => [])

def joinSp (l : List String) : String := " ".intercalate l

def dumpPron (p : Pron) : Xml :=
  .elem "Pronunciation"
    (optAttr "variety" p.variety ++ optAttr "notation" p.notat ++
     (if p.phonemic == some false then [("phonemic", "false")] else []) ++ optAttr "audio" p.audio)
    p.text []
def dumpTag (t : Tag) : Xml := .elem "Tag" [("category", t.category)] t.text []

/-- children of a form-like element: pronunciations (LMF ≥ 1.1), then tags -/
def pronTagKids (v : String) (ps : List Pron) (ts : List Tag) : List Xml :=
  (if atLeast11 v then ps.map dumpPron else []) ++ ts.map dumpTag

def dumpLemma (v : String) (l : Lemma) : Xml :=
  let kids := pronTagKids v l.prons l.tags
  if l.external then .elem "ExternalLemma" [] "" kids
  else .elem "Lemma" ([("writtenForm", l.form)] ++ optAttr "script" l.script ++ [("partOfSpeech", l.pos)]) "" kids

def dumpForm (v : String) (f : Form) : Xml :=
  let idA := if atLeast11 v then optAttr "id" f.id else []
  let kids := pronTagKids v f.prons f.tags
  if f.external then .elem "ExternalForm" idA "" kids
  else .elem "Form" (idA ++ [("writtenForm", f.form)] ++ optAttr "script" f.script) "" kids

def dumpRel (name : String) (r : Relation) : Xml :=
  .elem name ([("target", r.target), ("relType", r.relType)] ++ metaAttrs r.md) "" []
def dumpExample (e : Example) : Xml :=
  .elem "Example" (metaAttrs e.md ++ optAttr "language" e.language) e.text []
/-- `str(int)` / `int(str)` on characters (decimal, optional leading minus) -/
def showInt : Int → List Char
  | .ofNat n => Nat.toDigits 10 n
  | .negSucc n => '-' :: Nat.toDigits 10 (n + 1)
def digitVal (c : Char) : Option Nat := if '0' ≤ c ∧ c ≤ '9' then some (c.toNat - 48) else none
def readNatAux : Nat → List Char → Option Nat
  | acc, [] => some acc
  | acc, c :: t => match digitVal c with | some d => readNatAux (acc * 10 + d) t | none => none
def readNat (l : List Char) : Option Nat := if l.isEmpty then none else readNatAux 0 l
def readInt : List Char → Option Int
  | '-' :: ds => (readNat ds).map (fun n => -(Int.ofNat n))
  | ds => (readNat ds).map Int.ofNat

def dumpCount (c : Count) : Xml := .elem "Count" (metaAttrs c.md) (String.ofList (showInt c.value)) []

def dumpSense (v : String) (s : Sense) : Xml :=
  let kids := s.relations.map (dumpRel "SenseRelation") ++ s.examples.map dumpExample ++ s.counts.map dumpCount
  if s.external then .elem "ExternalSense" [("id", s.id)] "" kids
  else .elem "Sense"
    ([("id", s.id), ("synset", s.synset)] ++ metaAttrs s.md ++
     (if s.lexicalized == some false then [("lexicalized", "false")] else []) ++
     optAttr "adjposition" s.adjposition ++
     (if atLeast11 v && !s.subcat.isEmpty then [("subcat", joinSp s.subcat)] else [])) "" kids

def dumpFrame (v : String) (f : Frame) : Xml :=
  .elem "SyntacticBehaviour"
    ([("subcategorizationFrame", f.frame)] ++
     (if atLeast11 v && truthy f.id then optAttr "id" f.id
      else if !atLeast11 v && !f.senses.isEmpty then [("senses", joinSp f.senses)] else [])) "" []

def dumpEntry (v : String) (e : Entry) : Xml :=
  if e.external then
    .elem "ExternalLexicalEntry" [("id", e.id)] ""
      ((match e.lemma with | some l => [dumpLemma v l] | none => []) ++
       e.forms.map (dumpForm v) ++ e.senses.map (dumpSense v))
  else
    .elem "LexicalEntry" ([("id", e.id)] ++ metaAttrs e.md) ""
      ((match e.lemma with | some l => [dumpLemma v l] | none => []) ++
       e.forms.map (dumpForm v) ++ e.senses.map (dumpSense v) ++
       (if atLeast11 v then [] else e.frames.map (dumpFrame v)))

def dumpDefinition (d : Definition) : Xml :=
  .elem "Definition" (optAttr "language" d.language ++ optAttr "sourceSense" d.sourceSense ++ metaAttrs d.md) d.text []

def dumpSynset (v : String) (s : Synset) : Xml :=
  if s.external then
    .elem "ExternalSynset" [("id", s.id)] ""
      (s.definitions.map dumpDefinition ++ s.relations.map (dumpRel "SynsetRelation") ++ s.examples.map dumpExample)
  else
    .elem "Synset"
      ([("id", s.id), ("ili", s.ili)] ++ optAttr "partOfSpeech" s.pos ++
       (if s.lexicalized == some false then [("lexicalized", "false")] else []) ++
       (if atLeast11 v then (if s.members.isEmpty then [] else [("members", joinSp s.members)]) ++ optAttr "lexfile" s.lexfile else []) ++
       metaAttrs s.md) ""
      (s.definitions.map dumpDefinition ++
       (match s.iliDef with | some d => [Xml.elem "ILIDefinition" (metaAttrs d.md) d.text []] | none => []) ++
       s.relations.map (dumpRel "SynsetRelation") ++ s.examples.map dumpExample)

def dumpDep (name : String) (d : Dep) : Xml :=
  .elem name ([("id", d.id), ("version", d.version)] ++ optAttr "url" d.url) "" []

def dumpLexicon (v : String) (l : Lexicon) : Xml :=
  .elem (if l.ext.isSome then "LexiconExtension" else "Lexicon")
    ([("id", l.id), ("label", l.label), ("language", l.language), ("email", l.email),
      ("license", l.license), ("version", l.version)] ++ optAttr "url" l.url ++ optAttr "citation" l.citation ++
     (if atLeast11 v then optAttr "logo" l.logo else []) ++ metaAttrs l.md) ""
    ((if atLeast11 v then (match l.ext with | some d => [dumpDep "Extends" d] | none => []) ++ l.requires.map (dumpDep "Requires") else []) ++
     l.entries.map (dumpEntry v) ++ l.synsets.map (dumpSynset v) ++
     (if atLeast11 v then l.frames.map (dumpFrame v) else []))

def dumpTree (r : Resource) : Xml :=
  .elem "LexicalResource" [] "" (r.lexicons.map (dumpLexicon r.version))

/-! ### loading -/

abbrev R := Except String

/-- element tables of `lmf.py` (re-checked against the source by `Props/C20.lean`) -/
def elems10 : List String := ["LexicalResource", "Lexicon", "LexicalEntry", "Lemma", "Form", "Tag", "Sense",
  "SenseRelation", "Example", "Count", "SyntacticBehaviour", "Synset", "Definition", "ILIDefinition", "SynsetRelation"]
def elems11 : List String := elems10 ++ ["Requires", "Extends", "Pronunciation", "LexiconExtension",
  "ExternalLexicalEntry", "ExternalLemma", "ExternalForm", "ExternalSense", "ExternalSynset"]
def validElems (v : String) : List String := if v == "1.0" then elems10 else elems11

/-- dictionary key an element is stored under in its parent -/
def keyOf (name : String) : String :=
  match name with
  | "LexicalResource" => "lexical-resource" | "Lexicon" => "lexicons" | "LexiconExtension" => "lexicons"
  | "LexicalEntry" => "entries" | "ExternalLexicalEntry" => "entries" | "Lemma" => "lemma" | "ExternalLemma" => "lemma"
  | "Form" => "forms" | "ExternalForm" => "forms" | "Tag" => "tags" | "Sense" => "senses" | "ExternalSense" => "senses"
  | "SenseRelation" => "relations" | "SynsetRelation" => "relations" | "Example" => "examples" | "Count" => "counts"
  | "SyntacticBehaviour" => "frames" | "Synset" => "synsets" | "ExternalSynset" => "synsets"
  | "Definition" => "definitions" | "ILIDefinition" => "ili_definition" | "Requires" => "requires"
  | "Extends" => "extends" | "Pronunciation" => "pronunciations" | _ => ""

/-- single-valued elements (`_LIST_ELEMS` complement) -/
def singleValued (name : String) : Bool :=
  name == "LexicalResource" || name == "Lemma" || name == "ExternalLemma" || name == "ILIDefinition" || name == "Extends"

/-- the start handler's structural checks, for one parent: every child is an element of the
version, and no two single-valued children share a key -/
def nodupB : List String → Bool
  | [] => true
  | a :: t => !t.contains a && nodupB t

def childrenOk (v : String) (cs : List Xml) : Bool :=
  cs.all (fun c => (validElems v).contains c.name) &&
  nodupB ((cs.filter (fun c => singleValued c.name)).map (fun c => keyOf c.name))

mutual
def treeOk (v : String) : Xml → Bool
  | .elem _ _ _ cs => childrenOk v cs && allOk v cs
def allOk (v : String) : List Xml → Bool
  | [] => true
  | c :: t => treeOk v c && allOk v t
end

def attr (x : Xml) (k : String) : Option String := (x.attrs.find? (fun e => e.1 == k)).map (·.2)
def reqAttr (x : Xml) (k : String) : R String :=
  match attr x k with | some s => .ok s | none => .error s!"missing attribute {k} on {x.name}"
def kids (x : Xml) (names : List String) : List Xml := x.children.filter (fun c => names.contains c.name)

/-- metadata extraction of the start handler for `_META_ELEMS`: `meta or None` -/
def pickKey (k : String) : Option String :=
  if k.toList.take 3 == ['d', 'c', ':'] && dcKeys.contains (String.ofList (k.toList.drop 3))
  then some (String.ofList (k.toList.drop 3))
  else if k == "status" || k == "note" || k == "confidenceScore" then some k else none
def metaPick (kv : String × String) : Option (String × String) := (pickKey kv.1).map (fun k => (k, kv.2))
def mkMeta (l : Meta) : Option Meta := if l.isEmpty then none else some l
def metaOf (x : Xml) : Option Meta := mkMeta (x.attrs.filterMap metaPick)

/-- `s.split(' ')` without the empty pieces, on characters -/
def splitCharsAux : List Char → List Char → List (List Char)
  | cur, [] => [cur.reverse]
  | cur, c :: rest => if c == ' ' then cur.reverse :: splitCharsAux [] rest else splitCharsAux (c :: cur) rest
def splitSp (s : String) : List String :=
  ((splitCharsAux [] s.toList).filter (fun w => !w.isEmpty)).map String.ofList
/-- `False if x == 'false' else True`, applied only to truthy strings -/
def boolAttr (o : Option String) : Option Bool :=
  match o with
  | some s => if s == "" then none else some (s != "false")
  | none => none

def loadPron (x : Xml) : Pron :=
  { text := x.text, variety := attr x "variety", notat := attr x "notation",
    phonemic := boolAttr (attr x "phonemic"), audio := attr x "audio" }
def loadTag (x : Xml) : R Tag := do
  return { text := x.text, category := ← reqAttr x "category" }

def loadLemma (x : Xml) : R Lemma := do
  let ext := x.name == "ExternalLemma"
  let tags ← (kids x ["Tag"]).mapM loadTag
  let prons := (kids x ["Pronunciation"]).map loadPron
  if ext then return { external := true, prons := prons, tags := tags }
  return { form := ← reqAttr x "writtenForm", pos := ← reqAttr x "partOfSpeech", script := attr x "script",
           prons := prons, tags := tags }

def loadForm (x : Xml) : R Form := do
  let ext := x.name == "ExternalForm"
  let tags ← (kids x ["Tag"]).mapM loadTag
  let prons := (kids x ["Pronunciation"]).map loadPron
  if ext then
    if !truthy (attr x "id") then throw "external form without id"
    return { external := true, id := attr x "id", prons := prons, tags := tags }
  return { id := attr x "id", form := ← reqAttr x "writtenForm", script := attr x "script", prons := prons, tags := tags }

def loadRel (x : Xml) : R Relation := do
  return { target := ← reqAttr x "target", relType := ← reqAttr x "relType", md := metaOf x }
def loadExample (x : Xml) : Example := { text := x.text, language := attr x "language", md := metaOf x }
def loadCount (x : Xml) : R Count :=
  match readInt x.text.toList with
  | some n => .ok { value := n, md := metaOf x }
  | none => .error "Count is not an integer"

def loadSense (x : Xml) : R Sense := do
  let ext := x.name == "ExternalSense"
  let rels ← (kids x ["SenseRelation"]).mapM loadRel
  let exs := (kids x ["Example"]).map loadExample
  let cnts ← (kids x ["Count"]).mapM loadCount
  let id ← reqAttr x "id"
  if ext then return { external := true, id := id, relations := rels, examples := exs, counts := cnts }
  return { id := id, synset := ← reqAttr x "synset", md := metaOf x, relations := rels, examples := exs, counts := cnts,
           lexicalized := boolAttr (attr x "lexicalized"), adjposition := attr x "adjposition",
           subcat := match attr x "subcat" with | some s => splitSp s | none => [] }

def loadFrame (x : Xml) : R Frame := do
  return { id := attr x "id", frame := ← reqAttr x "subcategorizationFrame",
           senses := match attr x "senses" with | some s => splitSp s | none => [] }

def loadEntry (extension : Bool) (x : Xml) : R Entry := do
  let ext := x.name == "ExternalLexicalEntry"
  if ext && !extension then throw "external entry in a plain lexicon"
  let id ← reqAttr x "id"
  let lemma ← match kids x ["Lemma", "ExternalLemma"] with
    | l :: _ => (loadLemma l).map some
    | [] => pure none
  if !ext && lemma.isNone then throw "entry without lemma"
  let forms ← (kids x ["Form", "ExternalForm"]).mapM loadForm
  let senses ← (kids x ["Sense", "ExternalSense"]).mapM loadSense
  let frames ← (kids x ["SyntacticBehaviour"]).mapM loadFrame
  if !extension && (forms.any (·.external) || senses.any (·.external) || (lemma.map (·.external)).getD false) then
    throw "external element in a plain lexicon"
  return { external := ext, id := id, md := if ext then none else metaOf x, lemma := lemma, forms := forms, senses := senses, frames := frames }

def loadDefinition (x : Xml) : Definition :=
  { text := x.text, language := attr x "language", sourceSense := attr x "sourceSense", md := metaOf x }

def loadSynset (extension : Bool) (x : Xml) : R Synset := do
  let ext := x.name == "ExternalSynset"
  if ext && !extension then throw "external synset in a plain lexicon"
  let id ← reqAttr x "id"
  let defs := (kids x ["Definition"]).map loadDefinition
  let rels ← (kids x ["SynsetRelation"]).mapM loadRel
  let exs := (kids x ["Example"]).map loadExample
  if ext then return { external := true, id := id, definitions := defs, relations := rels, examples := exs }
  return { id := id, ili := ← reqAttr x "ili", pos := attr x "partOfSpeech", md := metaOf x,
           iliDef := (kids x ["ILIDefinition"]).head?.map (fun d => { text := d.text, md := metaOf d }),
           definitions := defs, relations := rels, examples := exs,
           lexicalized := boolAttr (attr x "lexicalized"),
           members := match attr x "members" with | some s => splitSp s | none => [],
           lexfile := attr x "lexfile" }

def loadDep (x : Xml) : R Dep := do
  return { id := ← reqAttr x "id", version := ← reqAttr x "version", url := attr x "url" }

def loadLexicon (x : Xml) : R Lexicon := do
  let ext ← match kids x ["Extends"] with
    | d :: _ => (loadDep d).map some
    | [] => pure none
  let extension := ext.isSome
  let reqs ← (kids x ["Requires"]).mapM loadDep
  let entries ← (kids x ["LexicalEntry", "ExternalLexicalEntry"]).mapM (loadEntry extension)
  let synsets ← (kids x ["Synset", "ExternalSynset"]).mapM (loadSynset extension)
  let frames ← (kids x ["SyntacticBehaviour"]).mapM loadFrame
  return { id := ← reqAttr x "id", version := ← reqAttr x "version", label := ← reqAttr x "label",
           language := ← reqAttr x "language", email := ← reqAttr x "email", license := ← reqAttr x "license",
           url := attr x "url", citation := attr x "citation", logo := attr x "logo", md := metaOf x,
           ext := ext, requires := reqs, entries := entries, synsets := synsets, frames := frames }

/-- `load` on the tree of a document of version `v` -/
def loadTree (v : String) (t : Xml) : R Resource := do
  if t.name != "LexicalResource" then throw "root is not LexicalResource"
  if !treeOk v (.elem "" [] "" [t]) then throw "unexpected element"
  let lexs ← (kids t ["Lexicon", "LexiconExtension"]).mapM loadLexicon
  return { version := v, lexicons := lexs }

end WnVerif.Lmf
