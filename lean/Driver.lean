import WnVerif.Drv.Graph
import WnVerif.Drv.Morphy
import WnVerif.Drv.Store
import WnVerif.Drv.Validate
import WnVerif.Drv.Project
import WnVerif.Drv.Lmf
open Lean WnVerif.Drv

def dispatch (j : Json) : Json :=
  match getStr j "op" with
  | "graph" => opGraph j
  | "ic" => opIc j
  | "morphy" => opMorphy j
  | "store" => opStore j
  | "glob" => opGlob j
  | "trace" => opTrace j
  | "route" => opRoute j
  | "dump" => opDump j
  | "load" => opLoad j
  | "roundtrip" => opRoundtrip j
  | "header" => opHeader j
  | "scan" => opScan j
  | "validate" => opValidate j
  | "ping" => jObj [("pong", jNat 1)]
  | op => jObj [("bad-op", jStr op)]

partial def loop (h : IO.FS.Stream) (out : IO.FS.Stream) : IO Unit := do
  let line ← h.getLine
  if line.isEmpty then return ()
  if line.trimAscii.isEmpty then loop h out else
  match Json.parse line with
  | .ok j => out.putStrLn (dispatch j).compress
  | .error e => out.putStrLn (jObj [("parse-error", jStr e)]).compress
  loop h out

def main : IO Unit := do
  let out ← IO.getStdout
  loop (← IO.getStdin) out
  out.flush
