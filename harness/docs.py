"""WN-LMF documents: an independent XML writer and a type-directed random generator.

Resources are Python dicts in the loader's normal form (what wn.lmf.load returns);
`to_xml` writes them without using wn.lmf.dump, so that checks of add/query (C01,
C04, C05, ...) do not depend on the serializer under test in C02."""
import random
from xml.sax.saxutils import quoteattr, escape

DC_URI = {'1.0': 'http://purl.org/dc/elements/1.1/',
          '1.1': 'https://globalwordnet.github.io/schemas/dc/',
          '1.2': 'https://globalwordnet.github.io/schemas/dc/',
          '1.3': 'https://globalwordnet.github.io/schemas/dc/'}
DC_KEYS = ['contributor', 'coverage', 'creator', 'date', 'description', 'format', 'identifier',
           'publisher', 'relation', 'rights', 'source', 'subject', 'title', 'type']
OTHER_META = ['status', 'note', 'confidenceScore']


def header(v):
    return ('<?xml version="1.0" encoding="UTF-8"?>\n'
            f'<!DOCTYPE LexicalResource SYSTEM "http://globalwordnet.github.io/schemas/WN-LMF-{v}.dtd">\n'
            f'<LexicalResource xmlns:dc="{DC_URI[v]}">\n')


# ---------------------------------------------------------------------------
# XML writer

def _attrs(pairs):
    return ''.join(f' {k}={quoteattr(str(v))}' for k, v in pairs if v is not None)


def _meta(m):
    if not m:
        return []
    out = []
    for k, v in m.items():
        out.append((('dc:' + k) if k in DC_KEYS else k, v))
    return out


def _el(name, attrs, children=None, text=None, ind=2):
    pad = '  ' * ind
    a = _attrs(attrs)
    if children:
        return f'{pad}<{name}{a}>\n' + ''.join(children) + f'{pad}</{name}>\n'
    if text is not None:
        # private-use placeholders stand for white space written as character references
        body = escape(text).replace('\ue000', '&#13;&#10;').replace('\ue001', '&#9;').replace('\ue002', '&#13;')
        return f'{pad}<{name}{a}>{body}</{name}>\n'
    return f'{pad}<{name}{a}/>\n'


def _xt(obj):
    """(extra attributes, text as written) of a text element: `_preserve` writes xml:space="preserve" and
    the text as it is; `_pad` writes the (whitespace-normalised) text with insignificant white space
    around and inside it, which the loader must remove"""
    t = obj['text']
    if obj.get('_preserve'):
        return [('xml:space', 'preserve')], t
    if obj.get('_pad') == 'refs':
        # the insignificant white space is written as character references (CR LF, TAB, a lone CR)
        return [], '\ue000  ' + t.replace(' ', '\ue001\ue002 ', 1).replace(' ', '\ue000', 1) + ' \ue002'
    if obj.get('_pad'):
        return [], '\n        ' + t.replace(' ', ' \n          ', 1) + '  \n      '
    return [], t


def _bool(b):
    return 'true' if b else 'false'


def _pron(p, ind):
    at = [('variety', p.get('variety')), ('notation', p.get('notation')),
          ('phonemic', _bool(p['phonemic']) if 'phonemic' in p else None), ('audio', p.get('audio'))]
    return _el('Pronunciation', at, text=p['text'], ind=ind)


def _tag(t, ind):
    return _el('Tag', [('category', t['category'])], text=t['text'], ind=ind)


def _rel(r, name, ind):
    return _el(name, [('target', r['target']), ('relType', r['relType'])] + _meta(r.get('meta')), ind=ind)


def _ex(e, ind):
    xa, xt = _xt(e)
    return _el('Example', [('language', e.get('language'))] + _meta(e.get('meta')) + xa, text=xt, ind=ind)


def _formlike(name, f, attrs, ind, v):
    ch = []
    if v != '1.0':
        ch += [_pron(p, ind + 1) for p in f.get('pronunciations', [])]
    ch += [_tag(t, ind + 1) for t in f.get('tags', [])]
    return _el(name, attrs, ch, ind=ind)


def _sense(s, ind, v):
    if s.get('external'):
        name, at = 'ExternalSense', [('id', s['id'])]
    else:
        name = 'Sense'
        at = [('id', s['id']), ('synset', s['synset'])] + _meta(s.get('meta'))
        if 'lexicalized' in s:
            at.append(('lexicalized', _bool(s['lexicalized'])))
        at.append(('adjposition', s.get('adjposition')))
        if v != '1.0' and s.get('subcat'):
            at.append(('subcat', ' '.join(s['subcat'])))
    ch = [_rel(r, 'SenseRelation', ind + 1) for r in s.get('relations', [])]
    ch += [_ex(e, ind + 1) for e in s.get('examples', [])]
    ch += [_el('Count', _meta(c.get('meta')), text=str(c['value']), ind=ind + 1) for c in s.get('counts', [])]
    return _el(name, at, ch, ind=ind)


def _frame(f, ind, v):
    at = [('id', f.get('id')) if v != '1.0' else ('id', None),
          ('subcategorizationFrame', f['subcategorizationFrame'])]
    if f.get('senses'):
        at.append(('senses', ' '.join(f['senses'])))
    return _el('SyntacticBehaviour', at, ind=ind)


def _entry(e, v):
    if e.get('external'):
        ch = []
        if e.get('lemma') is not None:
            ch.append(_formlike('ExternalLemma', e['lemma'], [], 3, v))
        for f in e.get('forms', []):
            if f.get('external'):
                ch.append(_formlike('ExternalForm', f, [('id', f['id'])], 3, v))
            else:
                ch.append(_formlike('Form', f, [('id', f.get('id')), ('writtenForm', f['writtenForm']),
                                                ('script', f.get('script'))], 3, v))
        ch += [_sense(s, 3, v) for s in e.get('senses', [])]
        return _el('ExternalLexicalEntry', [('id', e['id'])], ch, ind=2)
    lem = e['lemma']
    ch = [_formlike('Lemma', lem, [('writtenForm', lem['writtenForm']), ('script', lem.get('script')),
                                   ('partOfSpeech', lem['partOfSpeech'])], 3, v)]
    for f in e.get('forms', []):
        ch.append(_formlike('Form', f, [('id', f.get('id')) if v != '1.0' else ('id', None),
                                        ('writtenForm', f['writtenForm']), ('script', f.get('script'))], 3, v))
    ch += [_sense(s, 3, v) for s in e.get('senses', [])]
    ch += [_frame(f, 3, v) for f in e.get('frames', [])]
    return _el('LexicalEntry', [('id', e['id'])] + _meta(e.get('meta')), ch, ind=2)


def _synset(s, v):
    if s.get('external'):
        name, at = 'ExternalSynset', [('id', s['id'])]
    else:
        name = 'Synset'
        at = [('id', s['id']), ('ili', s['ili']), ('partOfSpeech', s.get('partOfSpeech'))]
        if 'lexicalized' in s:
            at.append(('lexicalized', _bool(s['lexicalized'])))
        if v != '1.0':
            if s.get('members'):
                at.append(('members', ' '.join(s['members'])))
            at.append(('lexfile', s.get('lexfile')))
        at += _meta(s.get('meta'))
    ch = [_el('Definition', [('language', d.get('language')), ('sourceSense', d.get('sourceSense'))]
              + _meta(d.get('meta')) + _xt(d)[0], text=_xt(d)[1], ind=3) for d in s.get('definitions', [])]
    if s.get('ili_definition') is not None:
        ch.append(_el('ILIDefinition', _meta(s['ili_definition'].get('meta')) + _xt(s['ili_definition'])[0],
                      text=_xt(s['ili_definition'])[1], ind=3))
    ch += [_rel(r, 'SynsetRelation', 3) for r in s.get('relations', [])]
    ch += [_ex(e, 3) for e in s.get('examples', [])]
    return _el(name, at, ch, ind=2)


def lexicon_xml(lx, v):
    name = 'LexiconExtension' if lx.get('extends') else 'Lexicon'
    at = [('id', lx['id']), ('label', lx['label']), ('language', lx['language']), ('email', lx['email']),
          ('license', lx['license']), ('version', lx['version']), ('url', lx.get('url')),
          ('citation', lx.get('citation'))]
    if v != '1.0':
        at.append(('logo', lx.get('logo')))
    at += _meta(lx.get('meta'))
    ch = []
    if lx.get('extends'):
        d = lx['extends']
        ch.append(_el('Extends', [('id', d['id']), ('version', d['version']), ('url', d.get('url'))], ind=2))
    for d in lx.get('requires', []):
        ch.append(_el('Requires', [('id', d['id']), ('version', d['version']), ('url', d.get('url'))], ind=2))
    ch += [_entry(e, v) for e in lx.get('entries', [])]
    ch += [_synset(s, v) for s in lx.get('synsets', [])]
    if v != '1.0':
        ch += [_frame(f, 2, v) for f in lx.get('frames', [])]
    pad = '  '
    return f'{pad}<{name}{_attrs(at)}>\n' + ''.join(ch) + f'{pad}</{name}>\n'


def to_xml(resource):
    v = resource['lmf_version']
    return header(v) + ''.join(lexicon_xml(lx, v) for lx in resource['lexicons']) + '</LexicalResource>\n'


# ---------------------------------------------------------------------------
# generator

PLAIN = ['wolf', 'wolves', 'church', 'churches', 'go', 'went', 'walk', 'walked', 'fine', 'finer',
         'ox', 'oxen', 'axis', 'axes', 'man', 'men', 'try', 'tries', 'water bottle', 'San Jose',
         'resume', 'Resume', 'run', 'runs', 'running', 'cold', 'colder', 'well', 'better', 'see', 'saw']
HOSTILE = ['a"b', "x'y", '<tag>', 'A&B', 'q&amp;r', 'tab\there', 'nl\nline', 'cr\rret', '𝒳-ray', '水筒',
           'Résumé', 'résumé', 'naïve', 'é', ' lead', 'trail ', 'two  spaces', '"both\' quotes"',
           ']]>', '&#65;', 'ÅNGSTRÖM', 'ǆ', 'İstanbul', 'ß']
TEXTS = ['a plain definition', 'with "double" quotes', "with 'single' quotes", 'angle <b> brackets', 'amp & ersand',
         'non-BMP 𝒳 char', 'CJK 定義', 'accent é and è', 'x']
RELS_SS = ['hypernym', 'hyponym', 'instance_hypernym', 'instance_hyponym', 'similar', 'also', 'mero_part',
           'holo_part', 'antonym', 'custom_rel', 'domain_topic', 'has_domain_topic', 'other']
RELS_S = ['antonym', 'derivation', 'pertainym', 'also', 'similar', 'other', 'custom_srel', 'participle']
RELS_S_SS = ['domain_topic', 'domain_region', 'exemplifies', 'other']
POS = ['n', 'v', 'a', 'r', 's']


class Gen:
    def __init__(self, rng, hostile=0.25, rich=0.5):
        self.rng = rng
        self.hostile = hostile
        self.rich = rich

    def coin(self, p=None):
        return self.rng.random() < (self.rich if p is None else p)

    def s(self, plain=None):
        if self.rng.random() < self.hostile:
            return self.rng.choice(HOSTILE)
        return self.rng.choice(plain or PLAIN)

    def text(self):
        if self.rng.random() < 0.02:
            # longer than expat's 8 KiB text buffer: the character-data handler is called several times for one node
            k = self.rng.randint(0, 99)
            if self.rng.random() < 0.5:
                return ' '.join(f'w{k + i}' for i in range(self.rng.randint(1800, 2600)))
            return ' '.join('定義' * 40 + str(k + i) for i in range(self.rng.randint(40, 60)))
        t = self.rng.choice(TEXTS)
        if self.rng.random() < self.hostile:
            t = t + ' ' + self.rng.choice(['A&B', '<x>', '"q"', '𝒳', '水'])
        return ' '.join(t.split())

    def meta(self, p=0.3, allow_type=True):
        if not self.coin(p):
            return None
        keys = self.rng.sample(DC_KEYS + OTHER_META, self.rng.randint(1, 3))
        m = {}
        for k in keys:
            if k == 'type' and not allow_type:
                continue
            m[k] = '0.9' if k == 'confidenceScore' else self.s(['src', 'someone', '2020-01-01', 'note here', 'x'])
        return m or None

    def prons(self, v):
        if v == '1.0' or not self.coin(0.25):
            return None
        out = []
        for _ in range(self.rng.randint(1, 2)):
            p = {'text': self.text()}
            if self.coin():
                p['variety'] = self.s(['GB', 'US'])
            if self.coin():
                p['notation'] = self.s(['ipa', 'sampa'])
            if self.coin(0.3):
                p['phonemic'] = self.coin(0.5)
            if self.coin(0.3):
                p['audio'] = self.s(['http://x/a.ogg'])
            out.append(p)
        return out

    def tags(self):
        if not self.coin(0.25):
            return None
        return [{'text': self.text(), 'category': self.s(['tense', 'number', 'person'])}
                for _ in range(self.rng.randint(1, 2))]

    def formlike(self, d, v):
        p = self.prons(v)
        if p:
            d['pronunciations'] = p
        t = self.tags()
        if t:
            d['tags'] = t
        return d

    def examples(self, p=0.3):
        if not self.coin(p):
            return None
        out = []
        for _ in range(self.rng.randint(1, 2)):
            e = {'text': self.text(), 'meta': self.meta()}
            if self.coin(0.3):
                e['language'] = self.rng.choice(['en', 'de', 'x-y'])
            out.append(e)
        return out

    def lexicon(self, lexid, version='1', v='1.1', n_syn=None, n_ent=None, lang=None, ili_pool=None,
                requires=None, forms_pool=None):
        rng = self.rng
        lx = {'id': lexid, 'version': version, 'label': self.s(['Label of ' + lexid]), 'language': lang or rng.choice(['en', 'en', 'de', 'ja']),
              'email': self.s(['a@b.c']), 'license': self.s(['CC-BY', 'https://x/y']), 'meta': self.meta(0.4)}
        if self.coin(0.3):
            lx['url'] = self.s(['http://example.org'])
        if self.coin(0.3):
            lx['citation'] = self.s(['Someone (2020)'])
        if v != '1.0' and self.coin(0.2):
            lx['logo'] = self.s(['http://example.org/logo.png'])
        if v != '1.0' and requires:
            lx['requires'] = [dict(r) for r in requires]
        n_syn = rng.randint(1, 6) if n_syn is None else n_syn
        n_ent = rng.randint(1, 6) if n_ent is None else n_ent
        syn_ids = [f'{lexid}-ss{i}' for i in range(n_syn)]
        synsets = []
        ili_pool = list(ili_pool) if ili_pool is not None else [f'i{k}' for k in range(1, 9)]
        for sid in syn_ids:
            r = rng.random()
            ili = '' if r < 0.25 else ('in' if r < 0.4 else rng.choice(ili_pool))
            ss = {'id': sid, 'ili': ili, 'partOfSpeech': rng.choice(POS), 'meta': self.meta()}
            if ili == 'in' and self.coin(0.7):
                ss['ili_definition'] = {'text': self.text(), 'meta': self.meta()}
            if ili not in ('', 'in') and self.coin(0.1):
                ss['ili_definition'] = {'text': self.text(), 'meta': self.meta()}
            if self.coin(0.5):
                ds = []
                for _ in range(rng.randint(1, 2)):
                    d = {'text': '' if self.coin(self.hostile) else self.text(), 'meta': self.meta()}
                    if self.coin(0.3):
                        d['language'] = rng.choice(['en', 'fr'])
                    ds.append(d)
                ss['definitions'] = ds
            ex = self.examples()
            if ex:
                ss['examples'] = ex
            if self.coin(0.15):
                ss['lexicalized'] = self.coin(0.4)
            if v != '1.0' and self.coin(0.3):
                ss['lexfile'] = self.s(['noun.animal', 'verb.motion'])
            rels = []
            for _ in range(rng.choice([0, 0, 1, 2, 3])):
                rels.append({'target': rng.choice(syn_ids), 'relType': rng.choice(RELS_SS), 'meta': self.meta(0.25)})
            if rels and self.coin(0.15):
                rels.append(dict(rels[0]))           # exact duplicate
            if rels and self.coin(0.15):             # same relation, different dc:type
                r0 = dict(rels[0])
                r0['meta'] = {'type': self.s(['subtypeA', 'subtypeB'])}
                rels.append(r0)
            if rels:
                ss['relations'] = rels
            synsets.append(ss)
        entries = []
        sense_ids = []
        used_forms = set()
        frames_lex = []
        if v != '1.0' and self.coin(0.4):
            for k in range(rng.randint(1, 3)):
                # frame strings are unique per lexicon only: the generic ones are shared by all lexicons
                fs = f'frame {k} of {lexid} %s' if self.coin(0.5) else ['Somebody ----s something', 'Something ----s', 'Somebody ----s'][k]
                frames_lex.append({'id': f'{lexid}-sb{k}', 'subcategorizationFrame': fs})
        for i in range(n_ent):
            eid = f'{lexid}-w{i}'
            wf = self.s(forms_pool)
            lem = {'writtenForm': wf, 'partOfSpeech': rng.choice(POS)}
            if self.coin(0.15):
                lem['script'] = self.s(['Latn', 'Cyrl'])
            self.formlike(lem, v)
            e = {'id': eid, 'meta': self.meta(), 'lemma': lem}
            forms = []
            seen = {(wf, lem.get('script'))}
            for k in range(rng.choice([0, 0, 1, 2, 3])):
                f = {'writtenForm': self.s(forms_pool)}
                if self.coin(0.15):
                    f['script'] = self.s(['Latn', 'Cyrl'])
                if (f['writtenForm'], f.get('script')) in seen:
                    continue
                seen.add((f['writtenForm'], f.get('script')))
                if v != '1.0' and self.coin(0.6):
                    f['id'] = f'{eid}-f{k}'
                self.formlike(f, v)
                forms.append(f)
            if forms:
                e['forms'] = forms
            senses = []
            for k in range(rng.choice([0, 1, 1, 2, 3])):
                sid = f'{eid}-s{k}'
                s = {'id': sid, 'synset': rng.choice(syn_ids), 'meta': self.meta()}
                ex = self.examples()
                if ex:
                    s['examples'] = ex
                if self.coin(0.25):
                    s['counts'] = [{'value': rng.randint(0, 50), 'meta': self.meta()} for _ in range(rng.randint(1, 2))]
                if self.coin(0.15):
                    s['lexicalized'] = self.coin(0.4)
                if self.coin(0.15):
                    s['adjposition'] = rng.choice(['a', 'p', 'ip'])
                if frames_lex and self.coin(0.4):
                    s['subcat'] = [f['id'] for f in rng.sample(frames_lex, rng.randint(1, len(frames_lex)))]
                senses.append(s)
                sense_ids.append(sid)
            if senses:
                e['senses'] = senses
            if v == '1.0' and senses and self.coin(0.4):
                fr = []
                for k in range(rng.randint(1, 2)):
                    f = {'subcategorizationFrame': rng.choice([f'frame A of {lexid}', f'frame B of {lexid}', f'frame {eid}-{k}', 'Somebody ----s something', 'Something ----s'])}
                    if any(f['subcategorizationFrame'] == g['subcategorizationFrame'] for g in fr):
                        continue
                    if self.coin(0.6):
                        f['senses'] = [s['id'] for s in rng.sample(senses, rng.randint(1, len(senses)))]
                    fr.append(f)
                e['frames'] = fr
            entries.append(e)
        # sense relations (to senses and to synsets)
        for e in entries:
            for s in e.get('senses', []):
                rels = []
                for _ in range(rng.choice([0, 0, 0, 1, 2])):
                    if sense_ids and self.coin(0.7):
                        rels.append({'target': rng.choice(sense_ids), 'relType': rng.choice(RELS_S), 'meta': self.meta(0.25)})
                    else:
                        rels.append({'target': rng.choice(syn_ids), 'relType': rng.choice(RELS_S_SS), 'meta': self.meta(0.25)})
                if rels:
                    s['relations'] = rels
        # members (1.1+): a permutation of a synset's senses, or a subset
        if v != '1.0':
            by_syn = {}
            for e in entries:
                for s in e.get('senses', []):
                    by_syn.setdefault(s['synset'], []).append(s['id'])
            for ss in synsets:
                ms = by_syn.get(ss['id'], [])
                if len(ms) >= 1 and self.coin(0.5):
                    ms = list(ms)
                    rng.shuffle(ms)
                    if self.coin(0.3):
                        ms = ms[:max(1, len(ms) - 1)]
                    ss['members'] = ms
            # definitions with sourceSense
            for ss in synsets:
                for d in ss.get('definitions', []):
                    ms = by_syn.get(ss['id'], [])
                    if ms and self.coin(0.3):
                        d['sourceSense'] = rng.choice(ms)
        if entries:
            lx['entries'] = entries
        if synsets:
            lx['synsets'] = synsets
        if frames_lex:
            lx['frames'] = frames_lex
        return lx

    def extension(self, extid, base, version='1', v='1.1', with_forms=False, form_like=True):
        """an extension using the documented patterns"""
        rng = self.rng
        lx = {'id': extid, 'version': version, 'label': self.s(['Ext ' + extid]), 'language': base['language'],
              'email': 'e@x.t', 'license': 'L', 'meta': self.meta(0.3),
              'extends': {'id': base['id'], 'version': base['version']}}
        if self.coin(0.3):
            lx['extends']['url'] = 'http://base.example'
        b_entries = [e for e in base.get('entries', []) if not e.get('external')]
        b_synsets = [s for s in base.get('synsets', []) if not s.get('external')]
        b_senses = [s for e in b_entries for s in e.get('senses', []) if not s.get('external')]
        new_syn = []
        for i in range(rng.randint(0, 2)):
            ss = {'id': f'{extid}-ss{i}', 'ili': rng.choice(['', 'in', f'i{rng.randint(1, 8)}']),
                  'partOfSpeech': rng.choice(POS), 'meta': self.meta()}
            if self.coin(0.4):
                ss['definitions'] = [{'text': self.text(), 'meta': self.meta()}]
            new_syn.append(ss)
        all_syn_ids = [s['id'] for s in b_synsets] + [s['id'] for s in new_syn]
        entries = []
        new_sense_ids = []
        # new entries
        for i in range(rng.randint(0, 2)):
            eid = f'{extid}-w{i}'
            e = {'id': eid, 'meta': self.meta(), 'lemma': self.formlike({'writtenForm': self.s(), 'partOfSpeech': rng.choice(POS)}, v)}
            senses = []
            for k in range(rng.randint(0, 2)):
                if not all_syn_ids:
                    break
                s = {'id': f'{eid}-s{k}', 'synset': rng.choice(all_syn_ids), 'meta': self.meta()}
                ex = self.examples()
                if ex:
                    s['examples'] = ex
                senses.append(s)
                new_sense_ids.append(s['id'])
            if senses:
                e['senses'] = senses
            entries.append(e)
        # external entries: new senses, external senses with relations/examples/counts,
        # tags / pronunciations on external lemma and id-carrying external forms
        for be in rng.sample(b_entries, min(len(b_entries), rng.randint(0, 3))):
            e = {'id': be['id'], 'external': True}
            if form_like and self.coin(0.4):
                lem = self.formlike({'external': True}, v)
                if len(lem) > 1:
                    e['lemma'] = lem
            forms = []
            if form_like:
                for bf in be.get('forms', []):
                    if bf.get('id') and self.coin(0.6):
                        f = self.formlike({'id': bf['id'], 'external': True}, v)
                        if len(f) <= 2 and self.coin(0.5):
                            f['tags'] = [{'text': rng.choice(['x', 'y']), 'category': 'ext'}]
                        if len(f) > 2:
                            forms.append(f)
                rng.shuffle(forms)       # an ExternalForm is found by its id: its position means nothing
            if with_forms and self.coin(0.5):
                forms.append({'writtenForm': self.s() + '-xf'})
            if forms:
                e['forms'] = forms
            senses = []
            for k in range(rng.randint(0, 2)):
                if not all_syn_ids:
                    break
                s = {'id': f'{extid}-{be["id"]}-s{k}', 'synset': rng.choice(all_syn_ids), 'meta': self.meta()}
                senses.append(s)
                new_sense_ids.append(s['id'])
            for bs in be.get('senses', []):
                if self.coin(0.5):
                    s = {'id': bs['id'], 'external': True}
                    ex = self.examples(0.5)
                    if ex:
                        s['examples'] = ex
                    if self.coin(0.4):
                        s['counts'] = [{'value': rng.randint(1, 9), 'meta': self.meta()}]
                    if len(s) > 2:
                        senses.append(s)
            if senses:
                e['senses'] = senses
            if len(e) > 2:
                entries.append(e)
        # relations of external senses (to base senses / new senses / synsets)
        all_sense_ids = [s['id'] for s in b_senses] + new_sense_ids
        for e in entries:
            for s in e.get('senses', []):
                if all_sense_ids and self.coin(0.35):
                    s.setdefault('relations', []).append(
                        {'target': rng.choice(all_sense_ids), 'relType': rng.choice(RELS_S), 'meta': self.meta(0.2)})
                if all_syn_ids and self.coin(0.3):
                    s.setdefault('relations', []).append(
                        {'target': rng.choice(all_syn_ids), 'relType': rng.choice(RELS_S_SS), 'meta': self.meta(0.2)})
        # external sense/synset ids referenced as relation targets must be declared external
        synsets = list(new_syn)
        ext_syn = {}
        for bs in rng.sample(b_synsets, min(len(b_synsets), rng.randint(0, 3))):
            s = {'id': bs['id'], 'external': True}
            if not bs.get('definitions') and self.coin(0.4):
                s['definitions'] = [{'text': self.text(), 'meta': self.meta()}]
            ex = self.examples(0.4)
            if ex:
                s['examples'] = ex
            if all_syn_ids and self.coin(0.5):
                s['relations'] = [{'target': rng.choice(all_syn_ids), 'relType': rng.choice(RELS_SS), 'meta': self.meta(0.2)}]
            ext_syn[bs['id']] = s
        for ss in new_syn:
            if all_syn_ids and self.coin(0.6):
                ss['relations'] = [{'target': rng.choice(all_syn_ids), 'relType': rng.choice(RELS_SS), 'meta': self.meta(0.2)}]
        # declare every referenced base synset / sense as external
        ref_syn = set()
        ref_sense = set()
        for e in entries:
            for s in e.get('senses', []):
                if not s.get('external'):
                    ref_syn.add(s['synset'])
                for r in s.get('relations', []):
                    if r['target'] in [x['id'] for x in b_senses]:
                        ref_sense.add(r['target'])
                    elif r['target'] in [x['id'] for x in b_synsets]:
                        ref_syn.add(r['target'])
        for ss in list(new_syn) + list(ext_syn.values()):
            for r in ss.get('relations', []):
                ref_syn.add(r['target'])
        base_syn_ids = {s['id'] for s in b_synsets}
        for sid in sorted(ref_syn & base_syn_ids):
            ext_syn.setdefault(sid, {'id': sid, 'external': True})
        synsets += [ext_syn[k] for k in sorted(ext_syn)]
        # external senses referenced as targets
        declared = {s['id'] for e in entries for s in e.get('senses', [])}
        owner = {s['id']: be['id'] for be in b_entries for s in be.get('senses', [])}
        for sid in sorted(ref_sense - declared):
            eid = owner[sid]
            tgt = next((e for e in entries if e['id'] == eid and e.get('external')), None)
            if tgt is None:
                tgt = {'id': eid, 'external': True}
                entries.append(tgt)
            tgt.setdefault('senses', []).append({'id': sid, 'external': True})
        # external entries must exist for new senses' entries (they do: senses are nested)
        entries = [e for e in entries if len(e) > 2 or not e.get('external')]
        if entries:
            lx['entries'] = entries
        if synsets:
            lx['synsets'] = synsets
        if v != '1.0' and self.coin(0.2):
            lx['frames'] = [{'id': f'{extid}-sb0', 'subcategorizationFrame': f'ext frame of {extid}'}]
            cands = [s for e in entries for s in e.get('senses', []) if not s.get('external')]
            if cands:
                cands[0]['subcat'] = [f'{extid}-sb0']
        return lx


def resource(lexicons, v='1.1'):
    return {'lmf_version': v, 'lexicons': lexicons}
