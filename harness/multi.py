"""Multi-lexicon scenarios shared by C04, C10, C11, C12: generation, execution of
battery ops on the real library and on the Lean model."""
import json

import docs
import leanside
import store
from props import c01


def world(rng, v='1.1', two_versions=True, relrich=True):
    """a:1 (en) with extension ax:1, optional a:2 with the same entity ids, expand lexicon e:1 (en) sharing ILIs,
    b:1 (de) requiring e:1 (installed) and zz:0 (missing), unrelated u:1 (ja)"""
    g = docs.Gen(rng, hostile=0.08, rich=0.5)
    # ILI ids are plain strings compared for equality: some that differ only in case, or where one is a
    # LIKE / GLOB pattern of another
    pool = rng.choice([[f'i{k}' for k in range(1, 7)], ['i1', 'i2', 'i11', 'i_1', 'I2', 'i%'], ['i1', 'i2', 'i3', 'i?', 'i*', 'I3']])
    forms = ['wolf', 'Wolf', 'run', 'runs', 'résumé', 'resume', 'water bottle', 'go']
    a1 = g.lexicon('a', '1', v, n_syn=rng.randint(3, 5), n_ent=rng.randint(2, 4), lang='en', ili_pool=pool, forms_pool=forms)
    ax = g.extension('ax', a1, '1', v, with_forms=False)
    e1 = g.lexicon('e', '1', v, n_syn=rng.randint(3, 6), n_ent=rng.randint(1, 3), lang='en', ili_pool=pool, forms_pool=forms)
    b1 = g.lexicon('b', '1', v, n_syn=rng.randint(2, 5), n_ent=rng.randint(1, 3), lang='de', ili_pool=pool, forms_pool=forms,
                   requires=[{'id': 'e', 'version': '1'}, {'id': 'zz', 'version': '0'}])
    u1 = g.lexicon('u', '1', v, n_syn=rng.randint(2, 5), n_ent=2, lang='ja', ili_pool=pool, forms_pool=forms)
    axx = g.extension('axx', ax, '1', v, with_forms=False)       # an extension of the extension
    W = {'a:1': a1, 'ax:1': ax, 'axx:1': axx, 'e:1': e1, 'b:1': b1, 'u:1': u1}
    if two_versions:
        W['a:2'] = g.lexicon('a', '2', v, n_syn=rng.randint(2, 4), n_ent=rng.randint(2, 3), lang='en', ili_pool=pool, forms_pool=forms)
    if relrich:
        # make hypernym structure denser inside e:1 so that expansion has something to borrow
        ys = e1['synsets']
        for i, y in enumerate(ys[:-1]):
            y.setdefault('relations', []).append({'target': ys[i + 1]['id'], 'relType': 'hypernym', 'meta': None})
        # the unrelated lexicon has a hypernym backbone of its own over the same ILIs: if navigation ever leaves the
        # selection and its expand set (e.g. from a placeholder synset), its relations show up
        us = u1['synsets']
        for i, y in enumerate(us[:-1]):
            y.setdefault('relations', []).append({'target': us[i + 1]['id'], 'relType': 'hypernym', 'meta': None})
    return W


SELECTIONS = [
    {}, {'lexicon': 'a:1'}, {'lexicon': 'a:1 ax:1'}, {'lexicon': 'ax:1'}, {'lexicon': 'a:*'}, {'lexicon': 'a'},
    {'lexicon': 'b:1'}, {'lexicon': 'b:1', 'expand': ''}, {'lexicon': 'a:1', 'expand': 'e:1'}, {'lexicon': 'a:1', 'expand': '*'},
    {'lexicon': 'a:1 b:1', 'expand': 'e:1 u:1'}, {'lang': 'en'}, {'lang': 'de'}, {'lexicon': '*:1', 'lang': 'en'},
    {'lexicon': 'a:1 e:1 b:1'}, {'lexicon': 'zz'}, {'lexicon': 'a:1', 'expand': 'zz'}, {'lexicon': 'u:1 a:2'},
    {'lexicon': 'e:1', 'lang': 'en'},
]


def add_op(W, specs, v='1.1'):
    return {'k': 'add', 'res': docs.resource([W[s] for s in specs], v)}


def execute(ctx, scs):
    impls = store.run_impl(scs, [s.get('batch') for s in scs])
    models = leanside.run_driver([store.model_request(s) for s in scs]) if ctx.lean['driver_ok'] else [None] * len(scs)
    return impls, models


def correspond(ctx, sc, im, mo):
    if isinstance(im, dict) and 'exception' in im:
        ctx.fail('scenario-runs-without-unexpected-exception', sc, im)
        return False
    store.judge_routes(ctx, sc, im)
    if mo is None:
        return True
    for k, (op, oi, om) in enumerate(zip(sc['ops'], im, mo)):
        if op['k'] == 'battery':
            d = c01.diff(store.canon_battery(oi), store.canon_battery(om))
            if d:
                ctx.disagree(sc, d[1], d[2], f'op[{k}] battery{ {a: b for a, b in op.items() if a != "k"} }{d[0]}')
                return True
        elif op['k'] == 'obs':
            d = c01.diff(store.canon_obs(oi, True), store.canon_obs(om, True))
            if d:
                ctx.disagree(sc, d[1], d[2], f'op[{k}] obs{d[0]}')
                return True
        elif isinstance(oi, dict) and isinstance(om, dict) and oi.get('ok') != om.get('ok'):
            ctx.disagree(sc, oi, om, f'op[{k}].ok')
            return True
    return True


def installed_after(sc, outs, upto):
    """(spec, doc) list installed after executing ops[:upto] (precheck semantics, removals with extensions)"""
    inst = []
    for op, out in list(zip(sc['ops'], outs))[:upto]:
        if op['k'] == 'add' and isinstance(out, dict) and out.get('ok'):
            before = {s for s, _ in inst}
            for lx in op['res']['lexicons']:
                spec = f"{lx['id']}:{lx['version']}"
                if spec in before or spec in {s for s, _ in inst}:
                    continue
                if lx.get('extends') and f"{lx['extends']['id']}:{lx['extends']['version']}" not in before:
                    continue
                inst.append((spec, lx))
        elif op['k'] == 'remove' and isinstance(out, dict) and out.get('ok'):
            gone = set(op.get('_removed', []))
            inst = [(s, l) for s, l in inst if s not in gone]
    return inst


def family(spec, inst):
    """own lexicon + transitive bases + transitive extensions"""
    d = dict(inst)
    fam = {spec}
    cur = d.get(spec)
    while cur is not None and cur.get('extends'):
        b = f"{cur['extends']['id']}:{cur['extends']['version']}"
        if b not in d:
            break
        fam.add(b)
        cur = d[b]
    changed = True
    down = {spec}
    while changed:
        changed = False
        for s, l in inst:
            if l.get('extends') and f"{l['extends']['id']}:{l['extends']['version']}" in down and s not in down:
                down.add(s)
                changed = True
    return fam | down
