import json, os, subprocess, glob, sys, re
ROOT='/verif'
for d in sorted(glob.glob(ROOT+"/seeded/*/")) if len(sys.argv)==1 else [ROOT+'/seeded/'+a+'/' for a in sys.argv[1:]]:
    name=os.path.basename(d.rstrip('/'))
    m=json.load(open(d+'meta.json'))
    pid=m['breaks_property']
    subprocess.run(['git','-C','/repo','apply',d+'patch.diff'],check=True)
    try:
        p=subprocess.run([ROOT+'/check',pid],cwd=ROOT,stdout=subprocess.PIPE,stderr=subprocess.STDOUT,text=True,timeout=3000)
    finally:
        subprocess.run(['git','-C','/repo','checkout','--','.'],check=True)
    reps=re.findall(r'VIOLATION property=\S+ replay=(\S+)',p.stdout)
    took=None
    for r in reps:
        pay=json.load(open(ROOT+'/'+r))
        if pay.get('kind')=='failing-input' and 'scenario' in pay:
            out=f'{ROOT}/corpus/{pid}/seeded-{name}.json'
            os.makedirs(os.path.dirname(out),exist_ok=True)
            json.dump({'origin':f'first failing input reported for seeded change {name} (seeded/{name}/patch.diff); passes on the unchanged tree',
                       'clause':pay.get('clause'),'scenario':pay['scenario']},open(out,'w'))
            took=(r,pay.get('clause'),os.path.getsize(out))
            break
    print(name,pid,took,flush=True)
