"""Store scenarios (add / remove / add-ili / observe): execution on the real library,
canonicalisation shared with the Lean driver's answers, and the document-level oracle."""
import json
import multiprocessing as mp
import shutil

import docs
import lookup


# ---------------------------------------------------------------------------
# observation of the real library (same JSON shape as Drv/Store.lean `obsAll`)

def _spec(lex):
    return f'{lex.id}:{lex.version}'


def _meta(m):
    return {k: (v if isinstance(v, str) else json.dumps(v)) for k, v in (m or {}).items()}


def _synref(s):
    try:
        lx = _spec(s.lexicon())
    except Exception:
        lx = ''
    return [lx, s.id, s._ili]


def _rel(r):
    try:
        lx = _spec(r.lexicon())
    except Exception as e:
        lx = 'error'
    return [r.name, r.source_id, r.target_id, lx, _meta(r.metadata())]


def obs_word(wn, x):
    forms = []
    for f in x.forms():
        forms.append({'form': str(f), 'id': f.id, 'script': f.script,
                      'tags': [[t.tag, t.category] for t in f.tags()],
                      'prons': [[p.value, p.variety, p.notation, bool(p.phonemic), p.audio] for p in f.pronunciations()]})
    return {'id': x.id, 'lexicon': _spec(x.lexicon()), 'pos': x.pos, 'forms': forms,
            'meta': _meta(x.metadata()), 'senses': [[_spec(s.lexicon()), s.id] for s in x.senses()]}


def obs_ili(wn, s):
    i = s.ili
    if i is None:
        return None
    return {'id': i.id, 'status': i.status, 'definition': i.definition(), 'meta': _meta(i.metadata())}


def obs_sense(wn, s):
    try:
        w = s.word()
        word = [_spec(w.lexicon()), w.id]
    except wn.Error:
        word = 'error'
    try:
        synset = _synref(s.synset())
    except wn.Error:
        synset = 'error'
    return {'id': s.id, 'lexicon': _spec(s.lexicon()), 'word': word, 'synset': synset,
            'examples': list(s.examples()),
            'counts': [[int(c), _meta(c.metadata())] for c in s.counts()],
            'frames': list(s.frames()), 'adjposition': s.adjposition(), 'lexicalized': bool(s.lexicalized()),
            'meta': _meta(s.metadata()),
            'relations': [[_rel(r), [_spec(t.lexicon()), t.id]] for r, t in s.relation_map().items()],
            'synset_relations': [[name, _synref(t)] for name, ts in _sense_synset_rels(s)
                                 for t in ts]}


def _sense_synset_rels(s):
    # public API: get_related_synsets(type) per relation type actually present
    out = []
    seen = []
    for t in s.get_related_synsets():
        pass
    # names are not exposed by get_related_synsets(); query per known type
    from wn.constants import SENSE_SYNSET_RELATIONS
    names = sorted(set(SENSE_SYNSET_RELATIONS) | {'other', 'custom_srel'})
    for n in names:
        ts = s.get_related_synsets(n)
        if ts:
            out.append((n, ts))
    return out


def obs_synset(wn, s):
    return {'id': s.id, 'lexicon': _spec(s.lexicon()), 'pos': s.pos, 'ili': obs_ili(wn, s),
            'definition': s.definition(), 'examples': list(s.examples()), 'lexfile': s.lexfile(),
            'lexicalized': bool(s.lexicalized()), 'meta': _meta(s.metadata()),
            'members': [[_spec(m.lexicon()), m.id] for m in s.senses()],
            'relations': [[_rel(r), _synref(t)] for r, t in s.relation_map().items()]}


def obs_lexicon(wn, lx):
    return {'id': lx.id, 'label': lx.label, 'language': lx.language, 'email': lx.email,
            'license': lx.license, 'version': lx.version, 'url': lx.url, 'citation': lx.citation,
            'logo': lx.logo, 'meta': _meta(lx.metadata()),
            'requires': [[k, (_spec(v) if v is not None else None)] for k, v in lx.requires().items()],
            'extends': (_spec(lx.extends()) if lx.extends() is not None else None),
            'extensions': [_spec(e) for e in lx.extensions()],
            'all_extensions': [_spec(e) for e in lx.extensions(depth=-1)]}


def route_bad(wn, w):
    """objects reached by navigation (synset -> senses -> word, word -> senses -> synset, relation targets …)
    report exactly what the same stored entity reports when it is listed directly by the same Wordnet.
    Judged for explicit selections whose lexicons have distinct ids (the ambiguity of finding F5 aside)."""
    lexs = w.lexicons()
    if w._default_mode or len({l.id for l in lexs}) < len(lexs):
        return []
    out = []
    fns = {'w': obs_word, 's': obs_sense, 'y': obs_synset}
    listed = {}
    for x in w.words():
        listed[('w', _spec(x.lexicon()), x.id)] = obs_word(wn, x)
    for x in w.senses():
        listed[('s', _spec(x.lexicon()), x.id)] = obs_sense(wn, x)
    for x in w.synsets():
        listed[('y', _spec(x.lexicon()), x.id)] = obs_synset(wn, x)

    def safe(f):
        try:
            r = f()
            return r if isinstance(r, list) else [r]
        except wn.Error:
            return []

    def chk(kind, e, route):
        if len(out) >= 4 or not getattr(e, '_id', 0):
            return
        try:
            k = (kind, _spec(e.lexicon()), e.id)
        except Exception as ex:
            out.append([route, [kind, '?', e.id], 'lexicon() raised ' + type(ex).__name__])
            return
        if k not in listed:
            out.append([route, list(k), 'not among the entities this Wordnet lists'])
            return
        o = fns[kind](wn, e)
        if o != listed[k]:
            fld = [f for f in o if o[f] != listed[k].get(f)]
            out.append([route, list(k), {'differs in': fld[:3], 'via route': {f: o[f] for f in fld[:2]}, 'listed': {f: listed[k].get(f) for f in fld[:2]}}])
    for y in w.synsets():
        for m in y.senses():
            chk('s', m, 'synset.senses()')
        for x in safe(y.words):
            chk('w', x, 'synset.words()')
        for t in y.get_related():
            chk('y', t, 'synset.get_related()')
    for x in w.words():
        for m in x.senses():
            chk('s', m, 'word.senses()')
        for y in safe(x.synsets):
            chk('y', y, 'word.synsets()')
    for s_ in w.senses():
        for x in safe(s_.word):
            chk('w', x, 'sense.word()')
        for y in safe(s_.synset):
            chk('y', y, 'sense.synset()')
        for t in s_.get_related():
            chk('s', t, 'sense.get_related()')
        for t in s_.get_related_synsets():
            chk('y', t, 'sense.get_related_synsets()')
    return out


def route_bad_of(out):
    """the `_route_bad` entries of one operation's output (an observation of all lexicons, or a battery)"""
    bad = []
    if isinstance(out, dict) and isinstance(out.get('scope'), dict):
        bad += [[out.get('S'), b] for b in out['scope'].get('_route_bad', [])]
    elif isinstance(out, list):
        for o in out:
            if isinstance(o, dict) and isinstance(o.get('scope'), dict):
                bad += [[o.get('spec'), b] for b in o['scope'].get('_route_bad', [])]
    return bad


ROUTE_CLAUSE = 'an-entity-reached-by-navigation-reports-what-it-reports-when-listed-directly-by-the-same-Wordnet'


def judge_routes(ctx, sc, outs):
    if not isinstance(outs, list):
        return
    for k, o in enumerate(outs):
        bad = route_bad_of(o)
        if bad:
            ctx.fail(ROUTE_CLAUSE, sc, {'op': k, 'args': {a: v for a, v in sc['ops'][k].items() if a not in ('k', 'res')} if k < len(sc.get('ops', [])) else None,
                                         '[selection, [route, entity, difference]]': bad[:3]})
            return


def obs_scope(wn, w):
    return {'_route_bad': route_bad(wn, w),
            'words': [obs_word(wn, x) for x in w.words()],
            'senses': [obs_sense(wn, x) for x in w.senses()],
            'synsets': [obs_synset(wn, x) for x in w.synsets()],
            'ilis': [[i.id, i.status, i.definition()] for i in w.ilis()]}


SHORTCUTS = {'hypernyms': ['hypernym', 'instance_hypernym'], 'hyponyms': ['hyponym', 'instance_hyponym'],
             'holonyms': ['holonym', 'holo_location', 'holo_member', 'holo_part', 'holo_portion', 'holo_substance'],
             'meronyms': ['meronym', 'mero_location', 'mero_member', 'mero_part', 'mero_portion', 'mero_substance']}


def _shortcuts_bad(s):
    """the documented shortcut methods of a synset against get_related() with the documented relation names"""
    bad = []
    for nm, rels in SHORTCUTS.items():
        a = [_synref(t) for t in getattr(s, nm)()]
        b = [_synref(t) for t in s.get_related(*rels)]
        if a != b:
            bad.append([nm, a, b])
    return bad


def _target_ili_bad(s):
    """every relation target — a stored synset or a placeholder — carries its ILI: the `ili` property agrees with
    the ILI the target was found by"""
    bad = []
    for t in s.get_related():
        i = t.ili
        got = i.id if i is not None else None
        if t._ili and got != t._ili:
            bad.append([_synref(t), {'ili property': got}])
    return bad[:3]


def obs_synset_x(wn, s):
    return {'ref': _synref(s), '_shortcuts_bad': _shortcuts_bad(s), '_target_ili_bad': _target_ili_bad(s),
            'get_related': [_synref(t) for t in s.get_related()],
            'hypernyms': [_synref(t) for t in s.hypernyms()],
            'relations': {k: [_synref(t) for t in v] for k, v in s.relations().items()},
            'by_type': {k: [_synref(t) for t in s.get_related(k)] for k in s.relations()},
            'translate': {_spec(l): [_synref(t) for t in s.translate(lexicon=_spec(l))] for l in wn.lexicons()},
            # without a target: every installed lexicon, however the synset was reached (oracle only)
            '_translate_all': [_synref(t) for t in s.translate()],
            # the simulated root is no stored synset: it has no ILI, proposed or otherwise (oracle only)
            '_root_ili': sorted({repr(p[-1].ili) for p in s.hypernym_paths(simulate_root=True) if p and p[-1].id == '*ROOT*'}),
            'closure_hypernym': [_synref(t) for t in s.closure('hypernym', 'instance_hypernym')],
            'hypernym_paths': [[_synref(t) for t in p] for p in s.relation_paths('hypernym', 'instance_hypernym')],
            # the taxonomy entry points over the same relation (wn.taxonomy / Synset shortcut methods)
            'tax_paths': [[_synref(t) for t in p] for p in s.hypernym_paths()],
            'depths': [s.min_depth(), s.max_depth()]}


def _rnav(wn, t):
    try:
        y = t.synset()
    except wn.Error:          # the synset of the target lies outside the selection
        return [[_spec(t.lexicon()), t.id], ['', 'error'], []]
    return [[_spec(t.lexicon()), t.id], _synref(y), [[_spec(m.lexicon()), m.id] for m in y.senses()]]


def obs_sense_x(wn, s):
    return {'ref': [_spec(s.lexicon()), s.id],
            'get_related': [[_spec(t.lexicon()), t.id] for t in s.get_related()],
            'get_related_synsets': [_synref(t) for t in s.get_related_synsets()],
            # what the synsets reached through sense→synset relations report in turn: they belong to the
            # same Wordnet as the sense, so members and hypernyms are those of its selection (oracle only)
            '_related_synsets_nav': [[_synref(t), [[_spec(m.lexicon()), m.id] for m in t.senses()],
                                      [_synref(h) for h in t.hypernyms()]] for t in s.get_related_synsets()],
            '_related_nav': [_rnav(wn, t) for t in s.get_related()],
            'closure': [[_spec(t.lexicon()), t.id] for t in s.closure()]}


def identity_violations(wn, w):
    """objects reached by different routes that denote the same stored entity are equal and hash
    alike; different entities are unequal (stored entities only: placeholders have no rowid)"""
    objs = []

    def add(kind, o, route):
        if getattr(o, '_id', 0):
            try:
                objs.append(((kind, _spec(o.lexicon()), o.id), o, route))
            except Exception:
                pass
    for x in w.words():
        add('w', x, 'words()')
        for s in x.senses():
            add('s', s, 'word.senses()')
    for s in w.senses():
        add('s', s, 'senses()')
        for t in s.get_related():
            add('s', t, 'sense.get_related()')
    for y in w.synsets():
        add('y', y, 'synsets()')
        for m in y.senses():
            add('s', m, 'synset.senses()')
        for t in y.get_related():
            add('y', t, 'synset.get_related()')
        for t in y.hypernyms():
            add('y', t, 'synset.hypernyms()')
    bad = []
    by_key = {}
    for key, o, route in objs:
        by_key.setdefault(key, []).append((o, route))
    for key, lst in by_key.items():
        o0, r0 = lst[0]
        for o, r in lst[1:]:
            if not (o == o0) or hash(o) != hash(o0) or o not in {o0} or o0 not in {o: 1}:
                bad.append(['same-entity-unequal-or-hash-differs', list(key), r0, r])
                break
    keys = list(by_key)
    reps = [by_key[k][0][0] for k in keys]
    for i in range(len(keys)):
        for j in range(i + 1, len(keys)):
            if reps[i] == reps[j]:
                bad.append(['different-entities-equal', list(keys[i]), list(keys[j])])
                if len(bad) > 5:
                    return bad
    return bad


def obs_scope_x(wn, w):
    import warnings
    with warnings.catch_warnings():
        warnings.simplefilter('ignore')
        return _obs_scope_x(wn, w)


def _obs_scope_x(wn, w):
    o = obs_scope(wn, w)
    o['identity'] = identity_violations(wn, w)
    o['synsets_x'] = [obs_synset_x(wn, x) for x in w.synsets()]
    o['senses_x'] = [obs_sense_x(wn, x) for x in w.senses()]
    o['nav'] = obs_nav(wn, w)
    # look-ups by word form inside the selection (oracle only): every entity returned is owned by the selection
    forms = []
    for x in w.words():
        for f in x.forms()[:2]:
            if str(f) not in forms:
                forms.append(str(f))
    # Wordnet.ili(id) finds exactly the ILIs that Wordnet.ilis() lists (oracle only)
    listed_ilis = {i[0] for i in o['ilis'] if i[0] is not None}
    bad_ili = []
    for i_ in sorted({x.id for x in wn.ilis() if x.id}):
        try:
            w.ili(i_)
            found = True
        except wn.Error:
            found = False
        if found != (i_ in listed_ilis):
            bad_ili.append([i_, 'ili(id) ' + ('finds it' if found else 'raises'), 'ilis() ' + ('lists it' if i_ in listed_ilis else 'does not list it')])
    o['_ili_lookup_bad'] = bad_ili[:4]
    # taxonomy entry points take the Wordnet: roots / leaves of a part of speech are synsets of its selection
    import wn.taxonomy as _tax
    o['_tax'] = {}
    for p_ in ('n', 'v', 'a', 's', 'r'):
        try:
            o['_tax'][p_] = [[_synref(y) for y in _tax.roots(w, p_)], [_synref(y) for y in _tax.leaves(w, p_)], _tax.taxonomy_depth(w, p_)]
        except wn.Error as e:
            o['_tax'][p_] = 'error'
    o['_by_form'] = [[f, [[_spec(x.lexicon()), x.id] for x in w.words(f)], [[_spec(x.lexicon()), x.id] for x in w.senses(f)],
                      [_synref(y) for y in w.synsets(f)]] for f in forms[:8]]
    return o


def obs_nav(wn, w):
    """word.synsets(), synset.words(), synset.lemmas() next to the sense lists they are images of"""
    def ref(e):
        return [_spec(e.lexicon()), e.id]

    def safe(f):
        try:
            return f()
        except wn.Error:
            return 'error'
    out = {'words': [], 'synsets': []}
    for x in w.words():
        out['words'].append({'ref': ref(x), 'synsets': safe(lambda: [ref(y) for y in x.synsets()]),
                             'via_senses': safe(lambda: [ref(s.synset()) for s in x.senses()])})
    for y in w.synsets():
        out['synsets'].append({'ref': ref(y), 'words': safe(lambda: [ref(x) for x in y.words()]),
                               'lemmas': safe(lambda: [str(l) for l in y.lemmas()]),
                               'via_senses': safe(lambda: [ref(s.word()) for s in y.senses()]),
                               'lemmas_via_senses': safe(lambda: [str(s.word().lemma()) for s in y.senses()])})
    return out


def battery(wn, op):
    import warnings
    with warnings.catch_warnings(record=True) as caught:
        warnings.simplefilter('always')
        try:
            kw = {}
            if 'expand' in op and op['expand'] is not None:
                kw['expand'] = op['expand']
            if op.get('normalizer') is False:
                kw['normalizer'] = None
            if op.get('all_forms') is False:
                kw['search_all_forms'] = False
            w = wn.Wordnet(lexicon=op.get('lexicon'), lang=op.get('lang'), **kw)
        except wn.Error:
            return 'error'
    missing = []
    for c in caught:
        msg = str(c.message)
        if 'lexicon dependencies not available:' in msg:
            missing += msg.split(':', 1)[1].split()
    return {'S': [_spec(l) for l in w.lexicons()], 'E': [_spec(l) for l in w.expanded_lexicons()],
            'missing': missing, 'scope': obs_scope_x(wn, w)}


def make_lemmatizer(wn, op):
    lem = op.get('lemmatizer')
    if lem is None:
        return None
    if lem == 'morphy':
        from wn.morphy import Morphy
        return Morphy()
    if lem == 'morphy_init':
        from wn.morphy import Morphy
        return Morphy(wn.Wordnet(lexicon=op.get('lexicon'), lang=op.get('lang'), expand=''))
    table = lem
    return lambda form, pos=None: {p: set(fs) for p, fs in table.get(form, [])}


def find(wn, op):
    import warnings
    with warnings.catch_warnings():
        warnings.simplefilter('ignore')
        try:
            kw = {'expand': ''}
            if op.get('normalizer') is False:
                kw['normalizer'] = None
            if op.get('all_forms') is False:
                kw['search_all_forms'] = False
            w = wn.Wordnet(lexicon=op.get('lexicon'), lang=op.get('lang'), lemmatizer=make_lemmatizer(wn, op), **kw)
        except wn.Error:
            return 'error'
        f, p = op.get('form'), op.get('pos')

        def wref(get):
            try:
                x = get()
                return [_spec(x.lexicon()), x.id, [str(ff) for ff in x.forms()]]
            except wn.Error:
                return 'error'
        senses_ = w.senses(f, p)
        synsets_ = w.synsets(f, p)
        return {'words': [[_spec(x.lexicon()), x.id] for x in w.words(f, p)],
                'senses': [[_spec(x.lexicon()), x.id] for x in senses_],
                'synsets': [[_spec(x.lexicon()), x.id] for x in synsets_],
                # what the results lead to (oracle only): the word of a found sense, the words of a found synset
                '_sense_words': [[_spec(x.lexicon()), x.id, wref(x.word)] for x in senses_],
                '_synset_words': [[_spec(y.lexicon()), y.id, [wref(m.word) for m in y.senses()]] for y in synsets_]}


def canon_battery(b, sort_forms_tail=True):
    if b == 'error':
        return b
    sc = canon_scope(b['scope'], sort_forms_tail)
    xs = []
    for x in b['scope'].get('synsets_x', []):
        xs.append({'ref': x['ref'], 'get_related': sorted(x['get_related'], key=_k),
                   'hypernyms': sorted(x['hypernyms'], key=_k),
                   'relations': {k: sorted(v, key=_k) for k, v in sorted(x['relations'].items())},
                   'by_type': {k: sorted(v, key=_k) for k, v in sorted(x.get('by_type', {}).items())},
                   'translate': {k: (sorted(v, key=_k) if isinstance(v, list) else v) for k, v in sorted(x.get('translate', {}).items())},
                   '_translate_all': sorted(x['_translate_all'], key=_k) if '_translate_all' in x else None,
                   '_root_ili': x.get('_root_ili'),
                   'closure_hypernym': sorted(x['closure_hypernym'], key=_k),
                   'hypernym_paths': sorted(x['hypernym_paths'], key=_k),
                   'tax_paths': sorted(x.get('tax_paths', x['hypernym_paths']), key=_k),
                   'depths': x.get('depths', [min([len(p) for p in x['hypernym_paths']] or [0]), max([len(p) for p in x['hypernym_paths']] or [0])])})
    sc['synsets_x'] = sorted(xs, key=lambda x: _k({k: v for k, v in x.items() if not k.startswith('_')}))
    ys = []
    for x in b['scope'].get('senses_x', []):
        ys.append({'ref': x['ref'], 'get_related': sorted(x['get_related'], key=_k),
                   'get_related_synsets': sorted(x['get_related_synsets'], key=_k),
                   'closure': sorted(x['closure'], key=_k),
                   '_nav': sorted([[t, sorted(ms, key=_k), sorted(hs, key=_k)] for t, ms, hs in x.get('_related_synsets_nav', [])], key=_k),
                   '_rnav': sorted([[t, y, sorted(ms, key=_k)] for t, y, ms in x.get('_related_nav', [])], key=_k)})
    sc['senses_x'] = sorted(ys, key=lambda x: _k({k: v for k, v in x.items() if not k.startswith('_')}))
    sc['_tax'] = {p_: ([sorted(v_[0], key=_k), sorted(v_[1], key=_k), v_[2]] if isinstance(v_, list) else v_)
                  for p_, v_ in sorted(b['scope'].get('_tax', {}).items())}
    sc['_by_form'] = [[f, sorted(a, key=_k), sorted(b_, key=_k), sorted(c, key=_k)] for f, a, b_, c in b['scope'].get('_by_form', [])]
    return {'S': b['S'], 'E': b['E'], 'missing': sorted(b['missing']), 'scope': sc}


def bases_of(lx):
    out = []
    cur = lx.extends()
    while cur is not None:
        out.append(cur)
        cur = cur.extends()
    return out


def obs_all(wn):
    out = []
    for lx in wn.lexicons():
        specs = ' '.join([_spec(lx)] + [_spec(b) for b in bases_of(lx)])
        w = wn.Wordnet(lexicon=specs, expand='')
        out.append({'spec': _spec(lx), 'lexicon': obs_lexicon(wn, lx), 'scope': obs_scope(wn, w)})
    return out


# ---------------------------------------------------------------------------
# canonical form (both sides): sort what no ORDER BY / no statement fixes

def _k(x):
    return json.dumps(x, sort_keys=True, ensure_ascii=False)


def _per_owner(refs):
    """senses of an entry / members of a synset: base and extension ranks both start at 0, only
    each owner's subsequence is ordered"""
    owners = []
    for r in refs:
        if r[0] not in owners:
            owners.append(r[0])
    return {o: [r[1] for r in refs if r[0] == o] for o in sorted(owners)}


def canon_scope(sc, sort_forms_tail=False):
    out = {}
    ws = []
    for w in sc['words']:
        w = dict(w)
        fs = []
        for f in w['forms']:
            f = dict(f)
            # tags / pronunciations of a form are reported in document order: the look-up goes through the
            # single-column index on form_rowid, i.e. in insertion order (validated by correspondence)
            f['tags'] = list(f['tags'])
            f['prons'] = list(f['prons'])
            fs.append(f)
        if sort_forms_tail:
            fs = fs[:1] + sorted(fs[1:], key=_k)
        w['forms'] = fs
        w['senses'] = _per_owner(w['senses'])
        ws.append(w)
    out['words'] = sorted(ws, key=lambda w: (w['lexicon'], w['id']))
    ss = []
    for s in sc['senses']:
        s = dict(s)
        s['examples'] = sorted(s['examples'])
        s['counts'] = sorted(s['counts'], key=_k)
        s['frames'] = sorted(s['frames'])
        s['relations'] = sorted(s['relations'], key=_k)
        s['synset_relations'] = sorted({_k(x): x for x in s['synset_relations']}.values(), key=_k)
        ss.append(s)
    out['senses'] = sorted(ss, key=lambda s: (s['lexicon'], s['id']))
    ys = []
    for y in sc['synsets']:
        y = dict(y)
        y['examples'] = sorted(y['examples'])
        y['members'] = _per_owner(y['members'])
        y['relations'] = sorted(y['relations'], key=_k)
        ys.append(y)
    out['synsets'] = sorted(ys, key=lambda s: (s['lexicon'], s['id'], _k(s)))
    out['ilis'] = sorted(sc['ilis'], key=_k)
    return out


def canon_obs(obs, sort_forms_tail=False):
    res = []
    for o in obs:
        lx = dict(o['lexicon'])
        lx['requires'] = sorted(lx['requires'], key=_k)
        lx['extensions'] = sorted(lx['extensions'])
        lx['all_extensions'] = sorted(lx['all_extensions'])
        res.append({'spec': o['spec'], 'lexicon': lx, 'scope': canon_scope(o['scope'], sort_forms_tail)})
    return sorted(res, key=lambda o: o['spec'])


def model_synset_relations_fix(obs):
    """the driver reports sense->synset relations as [name, target] pairs in relation order; the
    API observer groups by name: canonicalised by sorting (done in canon_scope)"""
    return obs


# ---------------------------------------------------------------------------
# scenario execution

def norm_table(resources, extra=()):
    t = {}
    for r in resources:
        for lx in r['lexicons']:
            for e in lx.get('entries', []):
                if e.get('lemma') and 'writtenForm' in e['lemma']:
                    t[e['lemma']['writtenForm']] = lookup.norm(e['lemma']['writtenForm'])
                for f in e.get('forms', []):
                    if 'writtenForm' in f:
                        t[f['writtenForm']] = lookup.norm(f['writtenForm'])
    for s in extra:
        t[s] = lookup.norm(s)
    return {k: v for k, v in t.items() if v != k}


def model_request(scenario):
    res = [op['res'] for op in scenario['ops'] if op['k'] == 'add']
    ops = []
    for op in scenario['ops']:
        if op['k'] == 'add':
            ops.append({'k': 'add', 'res': op['res']})
        else:
            ops.append(op)
    return {'op': 'store', 'norm': norm_table(res, scenario.get('extra_forms', ())), 'ops': ops,
            'defaultRank': 127}


def run_ops_impl(wn, wnenv, scenario, batch_size=None):
    """execute a scenario on the real library (fresh database)"""
    import wn._add as _add
    wnenv.fresh_db()
    d = wnenv.workdir()
    old_bs = _add.BATCH_SIZE
    if batch_size:
        _add.BATCH_SIZE = batch_size
    outs = []
    mem_objects = {}
    try:
        for k, op in enumerate(scenario['ops']):
            if op.get('_reconnect'):
                # a new session on the existing database file: the pooled connection is dropped, the next
                # call opens (and configures) a fresh one
                wnenv.close_pool()
            if op['k'] == 'add':
                f = d / f'res{k}.xml'
                f.write_text(docs.to_xml(op['res']), encoding='utf-8')
                try:
                    if op.get('_mem'):
                        # the in-memory route: load the file, hand the resource over; ops sharing a `_mem_id` hand
                        # over the very same object again
                        from wn import lmf as _lmf
                        mid = op.get('_mem_id')
                        if mid is not None and mid in mem_objects:
                            res_obj = mem_objects[mid]
                        else:
                            res_obj = _lmf.load(f, progress_handler=None)
                            if mid is not None:
                                mem_objects[mid] = res_obj
                        wn.add_lexical_resource(res_obj, progress_handler=None)
                    else:
                        wn.add(f, progress_handler=None)
                    outs.append({'ok': True})
                except Exception as e:
                    outs.append({'ok': False, 'exc': type(e).__name__ + ': ' + str(e)[:200]})
            elif op['k'] == 'remove':
                try:
                    wn.remove(op['spec'], progress_handler=None)
                    outs.append({'ok': True})
                except wn.Error as e:
                    outs.append({'ok': False, 'exc': str(e)[:200]})
            elif op['k'] == 'ili' and 'lines' in op:
                f = d / f'ili{k}.tsv'
                f.write_text('\n'.join(op['lines']) + '\n', encoding='utf-8')
                try:
                    wn.add(f, progress_handler=None)
                    outs.append({'ok': True})
                except Exception as e:
                    outs.append({'ok': False, 'exc': type(e).__name__ + ': ' + str(e)[:200]})
            elif op['k'] == 'ilis':
                import warnings
                with warnings.catch_warnings():
                    warnings.simplefilter('ignore')
                    by = {}
                    for i in op.get('ids', []):
                        try:
                            x = wn.ili(i)
                            by[i] = [x.id, x.status, x.definition()]
                        except wn.Error:
                            by[i] = 'error'
                    sts = ['active', 'provisional', 'deprecated', 'presupposed', 'proposed', 'nosuchstatus']
                    via = {}
                    for y_ in wn.synsets():
                        i_ = y_.ili
                        if i_ is not None and i_.id:
                            via.setdefault(i_.id, [])
                            if [i_.status, i_.definition()] not in via[i_.id]:
                                via[i_.id].append([i_.status, i_.definition()])
                    outs.append({'all': [[i.id, i.status, i.definition()] for i in wn.ilis()], 'by_id': by,
                                 # the ILI as the synsets carrying it report it (oracle only)
                                 '_via_synsets': via,
                                 # the status filter of the listing, module level and on a Wordnet object (oracle only)
                                 '_by_status': {st: [[i.id, i.status] for i in wn.ilis(status=st)] for st in sts},
                                 '_by_status_w': {st: [[i.id, i.status] for i in wn.Wordnet().ilis(status=st)] for st in sts}})
            elif op['k'] == 'ili':
                f = d / f'ili{k}.tsv'
                cols = op.get('header', ['ili', 'status', 'definition'])
                lines = ['\t'.join(cols)]
                for r in op['rows']:
                    vals = [r['ili']]
                    if 'status' in r or 'definition' in r:
                        vals.append(r.get('status', ''))
                    if 'definition' in r:
                        vals.append(r['definition'])
                    lines.append('\t'.join(vals))
                f.write_text('\n'.join(lines) + '\n', encoding='utf-8')
                wn.add(f, progress_handler=None)
                outs.append({'ok': True})
            elif op['k'] == 'obs':
                outs.append(obs_all(wn))
            elif op['k'] == 'battery':
                outs.append(battery(wn, op))
            elif op['k'] == 'find':
                outs.append(find(wn, op))
            elif op['k'] == 'lexicons':
                outs.append([_spec(l) for l in wn.lexicons(lexicon=op.get('lexicon'), lang=op.get('lang'))])
            else:
                outs.append({'bad-op': op['k']})
        return outs
    finally:
        _add.BATCH_SIZE = old_bs
        shutil.rmtree(d, ignore_errors=True)


def _impl_one(args):
    scenario, batch_size = args
    import wnenv
    try:
        return run_ops_impl(wnenv.wn, wnenv, scenario, batch_size)
    except Exception as e:
        import traceback
        return {'exception': repr(e), 'tb': traceback.format_exc()[-1500:]}
    finally:
        wnenv.cleanup()


def run_impl(scenarios, batch_sizes=None, procs=14):
    batch_sizes = batch_sizes or [None] * len(scenarios)
    args = list(zip(scenarios, batch_sizes))
    if len(args) <= 1:
        return [_impl_one(a) for a in args]
    with mp.get_context('fork').Pool(min(procs, len(args))) as pool:
        return pool.map(_impl_one, args, chunksize=1)


# ---------------------------------------------------------------------------
# document-level oracle: what the API must report for a scope, from the documents alone

def _m(m):
    return {k: (v if isinstance(v, str) else json.dumps(v)) for k, v in (m or {}).items()}


def expected_scope(scope_docs, all_docs_by_spec):
    """scope_docs: [(spec, lexicon dict)] — the observed lexicon first, then its bases.
    Returns the canonical scope the statement of C01 describes."""
    specs = [s for s, _ in scope_docs]
    lex_of = dict(scope_docs)
    # owner of every id: the lexicon where the entity is declared (non-external)
    words, senses, synsets = {}, {}, {}
    for spec, lx in scope_docs:
        for e in lx.get('entries', []):
            if not e.get('external'):
                words[(spec, e['id'])] = e
            for s in e.get('senses', []):
                if not s.get('external'):
                    senses[(spec, s['id'])] = (s, e)
        for y in lx.get('synsets', []):
            if not y.get('external'):
                synsets[(spec, y['id'])] = y

    def base_chain(spec):
        out = [spec]
        lx = lex_of[spec]
        while lx.get('extends'):
            b = f"{lx['extends']['id']}:{lx['extends']['version']}"
            if b not in lex_of:
                break
            out.append(b)
            lx = lex_of[b]
        return out

    def resolve(kind, spec, id_, external):
        """entity referred to by `id_` from lexicon `spec`: own lexicon, or the direct base when the
        id is declared external in `spec`"""
        table = {'w': words, 's': senses, 'y': synsets}[kind]
        if external:
            ch = base_chain(spec)
            if len(ch) > 1:
                return (ch[1], id_) if (ch[1], id_) in table else None
            return None
        return (spec, id_) if (spec, id_) in table else None

    ext_ids = {}
    for spec, lx in scope_docs:
        ids = set()
        for e in lx.get('entries', []):
            if e.get('external'):
                ids.add(e['id'])
            for s in e.get('senses', []):
                if s.get('external'):
                    ids.add(s['id'])
        for y in lx.get('synsets', []):
            if y.get('external'):
                ids.add(y['id'])
        ext_ids[spec] = ids

    def ref(kind, spec, id_):
        return resolve(kind, spec, id_, id_ in ext_ids[spec])

    # contributions
    w_forms = {k: [] for k in words}
    w_senses = {k: [] for k in words}
    form_extra = {}   # (wkey, form index or id) -> tags/prons from externals
    s_examples = {k: [] for k in senses}
    s_counts = {k: [] for k in senses}
    s_frames = {k: [] for k in senses}
    s_rels = {k: [] for k in senses}
    s_yrels = {k: [] for k in senses}
    y_members = {k: [] for k in synsets}
    y_examples = {k: [] for k in synsets}
    y_defs = {k: [] for k in synsets}
    y_rels = {k: [] for k in synsets}
    for spec, lx in reversed(scope_docs):     # installation order: bases first
        sense_ids = {s['id'] for e in lx.get('entries', []) for s in e.get('senses', [])}
        synset_ids = {y['id'] for y in lx.get('synsets', [])}
        for e in lx.get('entries', []):
            wk = ref('w', spec, e['id'])
            if wk is None:
                pass      # the entry's lexicon is outside the scope: its senses still exist
            elif not e.get('external'):
                lem = e['lemma']
                w_forms[wk].append({'form': lem['writtenForm'], 'id': None, 'script': lem.get('script'),
                                    'tags': [[t['text'], t['category']] for t in lem.get('tags', [])],
                                    'prons': [_pron(p) for p in lem.get('pronunciations', [])], '_rank': 0})
            elif e.get('lemma'):
                form_extra.setdefault((wk, 'lemma'), []).append(e['lemma'])
            for i, f in enumerate(e.get('forms', []) if wk is not None else [], 1):
                if f.get('external'):
                    form_extra.setdefault((wk, f['id']), []).append(f)
                else:
                    w_forms[wk].append({'form': f['writtenForm'], 'id': f.get('id'), 'script': f.get('script'),
                                        'tags': [[t['text'], t['category']] for t in f.get('tags', [])],
                                        'prons': [_pron(p) for p in f.get('pronunciations', [])], '_rank': i,
                                        '_owner': spec})
            for s in e.get('senses', []):
                sk = ref('s', spec, s['id'])
                if sk is None:
                    continue
                if not s.get('external') and wk is not None:
                    w_senses[wk].append([spec, s['id']])
                s_examples[sk] += [x['text'] for x in s.get('examples', [])]
                s_counts[sk] += [[c['value'], _m(c.get('meta'))] for c in s.get('counts', [])]
                for r in s.get('relations', []):
                    if r['target'] in sense_ids:
                        tk = ref('s', spec, r['target'])
                        if tk is not None:
                            s_rels[sk].append([[r['relType'], s['id'], r['target'], spec, _m(r.get('meta'))], list(tk)])
                    elif r['target'] in synset_ids:
                        tk = ref('y', spec, r['target'])
                        if tk is not None:
                            s_yrels[sk].append([r['relType'], tk])
        # frames
        for f in lx.get('frames', []):
            for sid in f.get('senses', []):
                sk = ref('s', spec, sid)
                if sk is not None:
                    s_frames[sk].append(f['subcategorizationFrame'])
        fmap = {f.get('id'): f['subcategorizationFrame'] for f in lx.get('frames', [])}
        for e in lx.get('entries', []):
            for s in e.get('senses', []):
                for sb in s.get('subcat', []) if not s.get('external') else []:
                    sk = ref('s', spec, s['id'])
                    if sk is not None and sb in fmap:
                        s_frames[sk].append(fmap[sb])
            if not e.get('external'):
                alls = [s['id'] for s in e.get('senses', [])]
                for f in e.get('frames', []):
                    for sid in (f.get('senses') or alls):
                        sk = ref('s', spec, sid)
                        if sk is not None:
                            s_frames[sk].append(f['subcategorizationFrame'])
        for y in lx.get('synsets', []):
            yk = ref('y', spec, y['id'])
            if yk is None:
                continue
            y_examples[yk] += [x['text'] for x in y.get('examples', [])]
            y_defs[yk] += [(spec, d['text']) for d in y.get('definitions', [])]
            for r in y.get('relations', []):
                tk = ref('y', spec, r['target'])
                if tk is not None:
                    y_rels[yk].append([[r['relType'], y['id'], r['target'], spec, _m(r.get('meta'))], tk])
        # members: senses of this lexicon, by their synset
        local_syn = {y['id']: y for y in lx.get('synsets', []) if not y.get('external')}
        for e in lx.get('entries', []):
            for s in e.get('senses', []):
                if s.get('external'):
                    continue
                yk = ref('y', spec, s['synset'])
                if yk is not None:
                    y_members[yk].append((spec, s['id']))
    out = {'words': [], 'senses': [], 'synsets': [], 'ilis': []}
    for (spec, wid), e in words.items():
        forms = sorted(w_forms[(spec, wid)], key=lambda f: f['_rank'])
        # tags / pronunciations added by extensions on the lemma and on id-carrying forms
        for (wk, key), adds in form_extra.items():
            if wk != (spec, wid):
                continue
            for a in adds:
                tgt = forms[0] if key == 'lemma' else next((f for f in forms if f['id'] == key), None)
                if tgt is not None:
                    tgt['tags'] = tgt['tags'] + [[t['text'], t['category']] for t in a.get('tags', [])]
                    tgt['prons'] = tgt['prons'] + [_pron(p) for p in a.get('pronunciations', [])]
        fs = [{k: v for k, v in f.items() if not k.startswith('_')} for f in forms]
        out['words'].append({'id': wid, 'lexicon': spec, 'pos': e['lemma']['partOfSpeech'], 'forms': fs,
                             'meta': _m(e.get('meta')), 'senses': w_senses[(spec, wid)]})
    for (spec, sid), (s, e) in senses.items():
        wk = ref('w', spec, e['id'])
        yk = ref('y', spec, s['synset'])
        y = synsets.get(yk) if yk else None
        out['senses'].append({
            'id': sid, 'lexicon': spec, 'word': list(wk) if wk else 'error',
            'synset': [yk[0], yk[1], _ili_attr(y)] if yk else 'error',
            'examples': s_examples[(spec, sid)], 'counts': s_counts[(spec, sid)],
            'frames': s_frames[(spec, sid)], 'adjposition': s.get('adjposition') or None,
            'lexicalized': bool(s.get('lexicalized', True)), 'meta': _m(s.get('meta')),
            'relations': _relmap(s_rels[(spec, sid)]),
            'synset_relations': [[n, [tk[0], tk[1], _ili_attr(synsets[tk])]] for n, tk in _dedup_pairs(s_yrels[(spec, sid)])]})
    for (spec, yid), y in synsets.items():
        members_decl = y.get('members', [])
        ms = y_members[(spec, yid)]

        def rank(m, spec=spec, members_decl=members_decl):
            if m[0] == spec and m[1] in members_decl:
                return len(members_decl) - 1 - members_decl[::-1].index(m[1])
            return 127
        ms_sorted = sorted(ms, key=rank)   # stable: ties keep document order
        defs = y_defs[(spec, yid)]
        out['synsets'].append({
            'id': yid, 'lexicon': spec, 'pos': y.get('partOfSpeech'), 'ili': _exp_ili(y),
            'definition': defs[0][1] if defs else None, '_definition_candidates': [d[1] for d in defs],
            'examples': y_examples[(spec, yid)], 'lexfile': y.get('lexfile') or None,
            'lexicalized': bool(y.get('lexicalized', True)), 'meta': _m(y.get('meta')),
            'members': [[m[0], m[1]] for m in ms_sorted],
            'relations': _relmap([[r, [tk[0], tk[1], _ili_attr(synsets[tk])]] for r, tk in y_rels[(spec, yid)]])})
    return out


def _pron(p):
    return [p['text'], p.get('variety'), p.get('notation'), bool(p.get('phonemic', True)), p.get('audio')]


def _ili_attr(y):
    if y is None:
        return None
    return y['ili'] if y['ili'] not in ('', 'in') else None


def _exp_ili(y):
    if y['ili'] == 'in':
        d = y.get('ili_definition')
        return {'id': None, 'status': 'proposed', 'definition': d['text'] if d else None,
                'meta': _m(d.get('meta') if d else None)}
    if y['ili'] == '':
        return None
    return {'id': y['ili'], '_status_definition_from_ili_table': True}


def _dedup_pairs(pairs):
    out = []
    for p in pairs:
        if p not in out:
            out.append(p)
    return out


def _relmap(pairs):
    """dict semantics of relation_map(): key (name, source, target, lexicon, dc:type)"""
    keys = []
    vals = {}
    firsts = {}
    for r, t in pairs:
        k = (r[0], r[1], r[2], r[3], r[4].get('type'))
        if k not in vals:
            keys.append(k)
            firsts[k] = r
        vals[k] = t
    return [[firsts[k], vals[k]] for k in keys]
