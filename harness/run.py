"""Entry point of every check:  ./check <Cxx> [--tier quick|thorough] [--seed N] [--replay file]"""
import argparse
import importlib
import json
import os
import pathlib
import sys
import time
import traceback

HERE = pathlib.Path(__file__).resolve().parent
sys.path.insert(0, str(HERE))

import core      # noqa: E402
import leanside  # noqa: E402
import wnenv     # noqa: E402,F401  (binds `wn` to the tree under test — $WN_REPO or /repo — before anything forks)


def main():
    ap = argparse.ArgumentParser()
    ap.add_argument('pid')
    ap.add_argument('--tier', default=os.environ.get('VERIF_TIER', 'quick'))
    ap.add_argument('--replay')
    ap.add_argument('--seed', type=int, default=None)
    ap.add_argument('--no-lean', action='store_true', help='debugging only: skip the Lean side')
    args = ap.parse_args()
    tier = args.tier if args.tier in ('quick', 'thorough') else 'quick'
    seed = args.seed if args.seed is not None else int(os.environ.get('VERIF_SEED', '0') or 0)
    pid = args.pid.upper()
    os.chdir(core.ROOT)
    try:
        mod = importlib.import_module(f'props.{pid.lower()}')
    except ModuleNotFoundError:
        print(f'unknown property {pid}', file=sys.stderr)
        return 2
    ctx = core.Ctx(pid, tier, seed)
    try:
        if args.no_lean:
            ctx.lean = {'theorems': {}, 'driver_ok': leanside.DRIVER.exists()}
        else:
            ctx.lean = leanside.prepare(pid, thorough=(tier == 'thorough'))
        if args.replay:
            payload = json.loads(pathlib.Path(args.replay).read_text())
            if payload.get('kind') == 'failing-input' or 'scenario' in payload:
                mod.replay(ctx, payload['scenario'])
            else:
                # an 'unproved' replay names what no longer checks: re-run the check itself
                mod.run(ctx)
        else:
            # regression corpus first: minimized inputs of past failures (fixed defects, seeded changes)
            for f in sorted((core.CORPUS / pid).glob('*.json')):
                if f.name.startswith(('seeded-', 'regress-')):
                    try:
                        mod.replay(ctx, json.loads(f.read_text())['scenario'])
                        ctx.tier = tier
                        ctx.dist['corpus-scenarios'] += 1
                    except Exception as e:     # a stale corpus file must not hide the real run
                        ctx.note(f'corpus file {f.name} could not be replayed: {e!r}')
            mod.run(ctx)
            lean = ctx.lean or {}
            broken = (any(s != 'proved' for s in (lean.get('theorems') or {}).values())
                      or lean.get('build_error') or lean.get('audit_problems') or ctx.disagreements)
            findings = core.load_known(pid)
            matchers = getattr(mod, 'MATCHERS', {})
            unmatched = [f for f in ctx.failures if core.match_finding(f, findings, matchers) is None]
            if broken and not unmatched and hasattr(mod, 'widen') and ctx.time_left() > 20:
                ctx.note('an obligation or the correspondence no longer checks: widening the failing-input search')
                ctx.widened = True
                mod.widen(ctx)
    except Exception:
        traceback.print_exc()
        print(f'[{pid}] infrastructure error (exit 2)', flush=True)
        return 2
    return core.finish(ctx, mod)


if __name__ == '__main__':
    sys.exit(main())
