"""Maintenance tool (not part of any registered check): applies each behaviour-preserving refactor kept under
/verif/harmless/<name>/patch.diff to /repo, runs the quick checks of the properties whose code it touches, reverts,
and reports which checks raised an alarm (none should)."""
import json, os, re, subprocess, sys, glob, concurrent.futures as cf
ROOT=os.path.dirname(os.path.dirname(os.path.abspath(__file__)))
REPO=os.environ.get('WN_REPO','/repo')
MAP={'_add.py':['C01','C03','C05','C06','C07','C18','C19','C10','C12'],
     '_queries.py':['C01','C04','C05','C08','C09','C10','C11','C12','C03'],
     '_core.py':['C01','C04','C09','C10','C11','C12','C13','C16','C17','C08'],
     'lmf.py':['C02','C03','C20','C07','C01','C16'],
     '_export.py':['C03','C16'],
     'taxonomy.py':['C13','C14','C16'],'similarity.py':['C14','C16'],'ic.py':['C14','C15','C16'],
     'morphy.py':['C17','C09','C16'],'validate.py':['C18','C16'],'project.py':['C07','C20'],
     '_ili.py':['C19','C07'],'constants.py':['C18','C17','C11'],'schema.sql':['C05','C01','C06'],
     '_db.py':['C01','C05','C06','C16'],'_util.py':['C09','C01','C17'],'util.py':['C06','C07'],'__main__.py':['C18'],
     '_config.py':['C07'],'_download.py':[], '_exceptions.py':['C06','C20'], '_types.py':[], '__init__.py':['C01']}
def run_check(pid):
    p=subprocess.run([ROOT+'/check',pid],cwd=ROOT,stdout=subprocess.PIPE,stderr=subprocess.STDOUT,text=True,timeout=3000)
    lines=[l for l in p.stdout.splitlines() if l.startswith('VIOLATION') or 'infrastructure' in l]
    summ=[l for l in p.stdout.splitlines() if l.startswith('['+pid+'] tier')]
    return pid,p.returncode,lines[:3],(summ[-1] if summ else '')
res={}
dirs=sys.argv[1:] or sorted(glob.glob(ROOT+'/harmless/R*'))
for d in dirs:
    pf=os.path.abspath(d+'/patch.diff')
    if not os.path.exists(pf): continue
    patch=open(pf).read()
    files=sorted(set(re.findall(r'^\+\+\+ b/wn/(\S+)',patch,re.M)))
    agent=re.search(r'/R(\d\d)', d).group(1)
    pids=set(['C'+agent, 'C%02d'%(int(agent)+1)]) if int(agent) <= 19 else set()      # R21… = second batch, by area
    for f in files: pids|=set(MAP.get(os.path.basename(f),[]))
    a=subprocess.run(['git','-C',REPO,'apply',pf],capture_output=True,text=True)
    if a.returncode!=0:
        print(d,'DOES NOT APPLY',a.stderr[:200]); continue
    try:
        with cf.ThreadPoolExecutor(8) as ex:
            out=list(ex.map(run_check,sorted(pids)))
    finally:
        subprocess.run(['git','-C',REPO,'checkout','--','.'],check=True)
    bad=[(p,rc,l,s) for p,rc,l,s in out if rc!=0]
    print(d,files,'checks',len(out),'ALARMS' if bad else 'quiet',bad[:4],flush=True)
    res[d]={'files':files,'checks':[o[0] for o in out],'alarms':[[p,rc,l] for p,rc,l,s in bad]}
json.dump(res, open(ROOT + '/harmless/last_run.json', 'w'), indent=1)
