"""Child process of the C16 check: builds a database from a scenario file and prints the
transcript of a battery of public calls, in the order the library returns things (nothing is
sorted here).  Run under different PYTHONHASHSEED values; the parent compares the output
byte for byte.  usage: seedbattery.py <scenario.json>"""
import hashlib
import json
import os
import pathlib
import sys
import tempfile
import warnings

HERE = pathlib.Path(__file__).resolve().parent
sys.path.insert(0, str(HERE))
import wnenv   # noqa: E402
import docs    # noqa: E402
import store   # noqa: E402
import graphs  # noqa: E402

wn = wnenv.wn
REVERSED = len(sys.argv) > 2 and sys.argv[2] == 'reversed'


def transcript(sc, d):
    import wn.taxonomy as tax
    import wn.similarity as sim
    import wn.ic
    import wn.validate
    from wn import lmf
    from wn.morphy import Morphy
    out = {}
    with warnings.catch_warnings():
        warnings.simplefilter('ignore')
        out['obs'] = store.obs_all(wn)
        bats = {}
        sels = list(sc['selections'])
        if REVERSED:
            sels = sels[::-1]         # same calls, other order: earlier read-only calls must not matter
        for sel in sels:
            bats[json.dumps(sel, sort_keys=True)] = store.battery(wn, dict({'k': 'battery'}, **sel))
        out['batteries'] = [bats[json.dumps(sel, sort_keys=True)] for sel in sc['selections']]
        # taxonomy / similarity / IC on the graph lexicon
        w = wn.Wordnet('g0:1')
        ss = w.synsets()
        tx = []
        for a in ss:
            for b in ss:
                row = [a.id, b.id]
                for root in (False, True):
                    row.append([s.id for s in tax.common_hypernyms(a, b, simulate_root=root)])
                    row.append([s.id for s in tax.lowest_common_hypernyms(a, b, simulate_root=root)])
                    try:
                        row.append([s.id for s in tax.shortest_path(a, b, simulate_root=root)])
                    except wn.Error:
                        row.append('error')
                    for fn in (sim.path, sim.wup):
                        try:
                            row.append(repr(fn(a, b, simulate_root=root)))
                        except wn.Error:
                            row.append('error')
                tx.append(row)
        out['taxonomy'] = tx
        out['paths'] = [[[s.id for s in p] for p in a.hypernym_paths()] for a in ss]
        out['roots_leaves_depth'] = [[s.id for s in tax.roots(w, 'n')], [s.id for s in tax.leaves(w, 'n')], tax.taxonomy_depth(w, 'n')]
        freq = wn.ic.compute(sc['corpus'], w, distribute_weight=True, smoothing=1.0)
        out['ic'] = {p: [[k, repr(v)] for k, v in d_.items()] for p, d_ in freq.items()}
        icm = []
        for a in ss:
            for b in ss:
                r = [a.id, b.id]
                for fn in (sim.res, sim.jcn, sim.lin):
                    try:
                        r.append(repr(fn(a, b, freq)))
                    except (wn.Error, KeyError, ZeroDivisionError) as e:
                        r.append(type(e).__name__)
                icm.append(r)
        out['ic_metrics'] = icm
        # IC over one lexicon seen through differently configured Wordnets (own relations only / borrowed
        # through an expand lexicon): the calls are read-only, so their order must not matter
        confs = [('b:1', 'a:1'), ('b:1', ''), ('a:1', ''), ('a:1', 'e:1')]
        if REVERSED:
            confs = confs[::-1]
        icx = {}
        for lexspec, exp in confs:
            wx = wn.Wordnet(lexspec, expand=exp)
            corpus_x = [str(x.forms()[0]) for x in wx.words()]
            try:
                fx = wn.ic.compute(corpus_x, wx, distribute_weight=False, smoothing=1.0)
                icx[lexspec + '|' + exp] = {p: [[k, repr(v)] for k, v in d_.items()] for p, d_ in fx.items()}
            except (wn.Error, KeyError) as e:
                icx[lexspec + '|' + exp] = type(e).__name__
        out['ic_by_configuration'] = [icx[a + '|' + b] for a, b in [('b:1', 'a:1'), ('b:1', ''), ('a:1', ''), ('a:1', 'e:1')]]
        # default expand lexicons of lexicons with several declared dependencies
        if any(l.id == 'dx' for l in wn.lexicons()):
            with warnings.catch_warnings(record=True) as caught:
                warnings.simplefilter('always')
                wd = wn.Wordnet('dx:1 dy:1')
                out['default_expand'] = {'expanded': [f'{l.id}:{l.version}' for l in wd.expanded_lexicons()],
                                         'describe': wd.describe(), 'warnings': [str(c.message) for c in caught],
                                         'hypernyms': [[y.id, [t.id for t in y.hypernyms()], [[r.name, r.lexicon().id, t.id] for r, t in y.relation_map().items()]]
                                                       for y in wd.synsets()]}
        # a taxonomy borrowed through an expand lexicon, with several placeholder synsets in common
        if any(l.id == 'xl' for l in wn.lexicons()):
            wx2 = wn.Wordnet('xl:1', expand='xe:1')
            p_, q_ = wx2.synset('xl-p'), wx2.synset('xl-q')
            ref2 = lambda s_: [s_.id, s_._ili]
            out['borrowed_taxonomy'] = {
                'lch': [[ref2(x) for x in wn.taxonomy.lowest_common_hypernyms(a_, b_, simulate_root=r_)] for a_, b_ in ((p_, q_), (q_, p_)) for r_ in (False, True)],
                'common': [ref2(x) for x in wn.taxonomy.common_hypernyms(p_, q_)],
                'path': [[ref2(x) for x in wn.taxonomy.shortest_path(a_, b_, simulate_root=True)] for a_, b_ in ((p_, q_), (q_, p_))],
                'paths': [[ref2(x) for x in pth] for pth in p_.hypernym_paths()],
                'sim': [repr(sim.wup(p_, q_, simulate_root=True)), repr(sim.path(p_, q_, simulate_root=True))]}
        # one Wordnet object reused for many read-only queries: each answer depends on its own arguments only,
        # not on the queries made before it on the same object
        wr = wn.Wordnet('a:1')
        ilis_ = sorted({y.ili.id for y in wn.Wordnet('a:1').synsets() if y.ili is not None and y.ili.id})[:2]
        q0 = sc['queries'][0] if sc['queries'] else 'x'
        calls = [('synsets', {}), ('words', {}), ('senses', {}), ('synsets', {'pos': 'n'}), ('words', {'pos': 'v'}),
                 ('synsets', {'form': q0}), ('senses', {'form': q0, 'pos': 'n'})] + \
                [('synsets', {'ili': i}) for i in ilis_] + [('synsets', {'ili': i, 'pos': 'n'}) for i in ilis_[:1]]
        order = list(range(len(calls)))
        if REVERSED:
            order = order[::-1]
        else:
            order = order[-2:] + order[:-2]          # an ILI-restricted query comes first, the unrestricted ones after it
        got_ = {}
        for k_ in order:
            nm_, kw_ = calls[k_]
            try:
                got_[k_] = [x.id for x in getattr(wr, nm_)(**kw_)]
            except Exception as e:
                got_[k_] = 'raised ' + type(e).__name__
        fresh_ = {}
        for k_ in range(len(calls)):
            nm_, kw_ = calls[k_]
            try:
                fresh_[k_] = [x.id for x in getattr(wn.Wordnet('a:1'), nm_)(**kw_)]
            except Exception as e:
                fresh_[k_] = 'raised ' + type(e).__name__
        out['one_object'] = [[calls[k_][0], calls[k_][1], got_[k_], fresh_[k_]] for k_ in range(len(calls))]
        # derived words in a defined order; lists handed out are the caller's own
        wa_ = wn.Wordnet('a:1')
        out['derived_words'] = [[x.id, [d_.id for d_ in x.derived_words()]] for x in wa_.words()] + \
            [[x.id, [d_.id for d_ in x.derived_words()]] for x in wn.Wordnet('m:1').words()]
        mbad = []
        for x in wa_.words():
            before = [str(x.lemma()), [str(f_) for f_ in x.forms()]]
            fs_ = x.forms()
            if fs_:
                fs_.pop(0)
            fs_.sort(reverse=True)
            fs_.append('zz')
            after = [str(x.lemma()), [str(f_) for f_ in x.forms()]]
            if before != after:
                mbad.append([x.id, before, after])
        out['caller_mutation_bad'] = mbad[:3]
        # two versions of one lexicon selected together: their synsets tie on id and ILI
        if any(l.id == 'xl' and l.version == '2' for l in wn.lexicons()):
            wx3 = wn.Wordnet('xl:1 xl:2', expand='xe:1')
            ref3 = lambda s_: [s_.id, s_._ili, (s_.lexicon().version if s_._id else None)]
            ys3 = [y_ for y_ in wx3.synsets() if y_.id in ('xl-p', 'xl-q')]
            out['two_versions_taxonomy'] = [[ref3(a_), ref3(b_), [ref3(x) for x in wn.taxonomy.common_hypernyms(a_, b_)],
                                             [ref3(x) for x in wn.taxonomy.lowest_common_hypernyms(a_, b_)],
                                             [[ref3(x) for x in pth] for pth in a_.hypernym_paths()]] for a_ in ys3 for b_ in ys3]
        # lookups with a lemmatizer
        lw = wn.Wordnet('a:1', lemmatizer=Morphy(wn.Wordnet('a:1')))
        out['lookups'] = [[q, [x.id for x in lw.words(q)], [x.id for x in lw.synsets(q)], [x.id for x in wn.words(q)]] for q in sc['queries']]
        mw = wn.Wordnet('m:1', lemmatizer=Morphy(wn.Wordnet('m:1')))
        mu0 = wn.Wordnet('m:1', lemmatizer=Morphy())
        out['lookups_m'] = [[q, [x.id for x in mw.words(q)], [x.id for x in mw.senses(q)], [x.id for x in mw.synsets(q)],
                             [x.id for x in mu0.words(q)]] for q in ('axes', 'axe', 'boxes', 'Axes', 'but', 'buts')]
        out['morphy_m'] = [[q, [[str(k), sorted(v)] for k, v in Morphy(wn.Wordnet('m:1'))(q).items()]] for q in ('but', 'axes', 'nope')]
        mu = Morphy()
        out['morphy'] = [[q, {str(k): sorted(v) for k, v in mu(q).items()}] for q in sc['queries']]
        # validate
        rep = wn.validate.validate(sc['broken'], progress_handler=None)
        out['validate'] = [[c, list(r['items'].items())] for c, r in rep.items()]
        # dump / export bytes
        f = d / 'dump.xml'
        lmf.dump(sc['dumpres'], f)
        out['dump_sha'] = hashlib.sha256(f.read_bytes()).hexdigest()
        for v in ('1.0', '1.3'):
            f = d / f'export-{v}.xml'
            wn.export(wn.lexicons(lexicon='a:1'), f, version=v)
            out['export_sha_' + v] = hashlib.sha256(f.read_bytes()).hexdigest()
            out['export_frames_' + v] = [ln.strip() for ln in f.read_text().splitlines() if 'SyntacticBehaviour' in ln][:20]
    return out


def main():
    sc = json.loads(pathlib.Path(sys.argv[1]).read_text())
    wnenv.fresh_db()
    d = wnenv.workdir()
    try:
        for k, res in enumerate(sc['resources']):
            f = d / f'r{k}.xml'
            f.write_text(docs.to_xml(res), encoding='utf-8')
            wn.add(f, progress_handler=None)
        f = d / 'graph.xml'
        f.write_text(graphs.pack([sc['graph']]), encoding='utf-8')
        wn.add(f, progress_handler=None)
        t1 = json.dumps(transcript(sc, d), ensure_ascii=False, default=str)
        t2 = json.dumps(transcript(sc, d), ensure_ascii=False, default=str)      # repetition within the process
        bad = [c for c in json.loads(t1).get('one_object', []) if c[2] != c[3]]
        print(json.dumps({'first': t1, 'repeat_equal': t1 == t2, 'second_sha': hashlib.sha256(t2.encode()).hexdigest(),
                          'one_object_bad': bad[:4], 'caller_mutation_bad': json.loads(t1).get('caller_mutation_bad', [])}))
    finally:
        import shutil
        shutil.rmtree(d, ignore_errors=True)
        wnenv.cleanup()


if __name__ == '__main__':
    main()
