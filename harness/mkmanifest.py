"""Writes /verif/MANIFEST.json from the table below (run after editing)."""
import json
import pathlib

ROOT = pathlib.Path(__file__).resolve().parent.parent

TECH = 'Lean 4 theorems over a hand-written executable model + differential correspondence (model driver vs real library) + regenerated Gen obligations'

# pid -> (technique, level text, level note)
CLAIMED = {
 'C13': (
  'Lean 4 proof over an executable graph model (relation_paths, taxonomy.py); correspondence on enumerated/random digraphs',
  'Theorems in lean/WnVerif/Props/C13.lean characterise hypernym_paths (all maximal simple chains, any finite digraph, no size bound), min/max depth, common/lowest common hypernyms and shortest_path of the Lean model of wn/taxonomy.py and _Relatable.relation_paths; taxonomy_depth is proved equal to the longest hypernym chain on every acyclic taxonomy of any size (C13_depth_acyclic_partial, via Lemmas/Acyclic.lean: the seen shortcut is sound when a rank decreases along every edge), with a kernel-checked cyclic counter-example where it is not (known finding F14). The model is tied to the code by running model and wn.taxonomy on the same digraphs (all labelled digraphs on <=2 nodes, a sample / all of the 512 on 3 nodes, random graphs up to 8-10 nodes, every node, every ordered pair, simulate_root on/off) and by independent graph-algorithm oracles on the real API.',
  'Trusted: Lean kernel; axioms propext/Classical.choice/Quot.sound only; the correspondence harness; SQLite row order of get_synset_relations and rowid allocation are modelled, not verified.'),
 'C14': (
  'Lean 4 proof over exact rationals (similarity formulas, Real.log for lch) + correspondence of wn.similarity with the model on enumerated/random digraphs and IC weights',
  'Theorems in Props/C14.lean: path in [0,1], =1 iff distance 0, =0 iff unconnected; wup in (0,1], =1 for identical synsets; self-maximality of path, wup and (over Mathlib Real.log, for every depth D>0) lch; symmetry of the wup formula; part-of-speech compatibility (a ~ s) and the error branches. The model computes path/wup/lch/res/jcn/lin as exact rationals (log arguments); the check requires the library float to equal the correctly rounded rational (path, wup), -math.log(num/den) (lch) or the formula on the model rationals within 1e-9 (res/jcn/lin), for all ordered pairs x simulate_root, and judges the documented formulas, symmetry, ranges and error cases with independent oracles. res deviates from the documented maximum over common subsumers: known finding F19.',
  'Trusted: Lean kernel, standard axioms; float rounding and math.log are runtime behaviour covered by correspondence only; the LCS selection depends on taxonomy.py (C13 model).'),
 'C15': (
  'Lean 4 proof: worklist walk = reachability without duplicates (any finite graph, cycles included), closed form of every weight, monotonicity, probability range; correspondence of wn.ic.compute with exact rationals',
  'Theorems in Props/C15.lean: the ancestor walk of compute() terminates for every finite hypernym graph and visits exactly the word synset and its ancestors, each once (C15_touched, via Lemmas/Walk.lean: sound, complete, nodup, fuel bound); C15_once / C15_total give the closed form of every synset weight and part-of-speech total; C15_monotone, C15_le_total, C15_prob_range, C15_prob_monotone derive monotonicity and 0 < p <= 1 (for smoothing > 0 and hypernymy inside one a/s-folded part of speech); unknown words ignored; s counted as a. Tied to wn/ic.py by running compute() on random graphs x corpora x distribute x smoothing and comparing every weight with the exact rational (1e-9 relative), plus an independent Fraction/BFS oracle and a load() file check.',
  'Trusted: Lean kernel, standard axioms; float summation order, wordnet.synsets(word) lookup (C09) and file parsing of load() are covered by correspondence/oracle only.'),
 'C01': (
  'Lean 4 executable relational model of _add.py/_queries.py/_core.py tied by full-observation correspondence and a document-level oracle; refinement theorems for the lexicon and entry slice',
  'The whole add path (_precheck, lookup tables, _collect_frames, _insert_lexicon, lexid map, the fifteen _insert_* steps with their sub-select resolutions, NOT NULL/UNIQUE failures) and the query/entity layer are transcribed into Lean (Model/Add.lean, Query.lean, Api.lean) and run against the real library on generated resources (LMF 1.0-1.3, hostile strings, metadata everywhere, extensions using every documented pattern, extensions of extensions, lowered BATCH_SIZE): the complete public-API observation of every lexicon must agree with the model and with an independent document-level oracle field by field. Proved in Props/C01.lean (any database, any document): the lexicon row written by _insert_lexicon carries exactly the document attributes and metadata with a fresh rowid and leaves other rows alone (C01_lexicon_row), dependencies are recorded; _insert_entries writes exactly one row per non-external entry in document order with id, lemma part of speech and metadata (C01_entries_rows), duplicate ids fail; _insert_forms writes the lemma at rank 0 and one row per non-external Form at rank position+1 with the text of the document, script and id, character for character (C01_entry_forms, C01_form_rows); _insert_senses writes one row per local sense in entry order pointing at the entry and synset rows the ids resolve to, with lexicalized default and metadata (C01_sense_rows); _insert_synsets writes one row per local synset with id, pos, lexicalized, metadata, and the ILI link resolves back through the ilis table to exactly the ILI id of the document (C01_synsets_after_insert, with presupposed-ILI creation and rowid uniqueness); and, composed end to end, C01_words_end_to_end: for every plain lexicon (no Extends, no external entries) whose add succeeds on any store with sound entry/form references, words() of the new lexicon reports exactly the entries of the document in document order, each with id, lemma part of speech, lemma and further forms in order with written form, id and script unaltered (every later insert step is proved to leave entries and forms alone; ORDER BY on rowid / rank is proved to preserve document order); likewise C01_senses_end_to_end (senses() of the new lexicon = the non-external senses of the document, entry by entry in order, each with its id, the id of its entry and the id of its synset) and C01_synsets_end_to_end: for every lexicon (plain or extension) synsets() of the new lexicon reports exactly the non-external synsets of the document in order with id, part of speech and ILI id; find_entries / find_senses / find_synsets decode exactly the stored rows (C01_words_decode/_complete, C01_senses_decode, C01_synsets_decode/_complete). The remaining insert steps (tags, pronunciations, counts, adjpositions, frames, relations, definitions, examples, proposed ILIs) and the composition into one end-to-end statement are tied by correspondence only: the refinement is partial.',
  'Trusted: Lean kernel, standard axioms; SQLite storage/ordering and the JSON metadata adapter are covered by correspondence only. Known finding F12 (unscoped tags/pronunciations).'),
 'C02': (
  'Lean 4 proof of loadTree v (dumpTree r) = ok r over a tree-level transcription of wn/lmf.py (dump / _dump_* / expat handlers / _validate_*), for every version and every normal-form resource; correspondence of dump and load with the model on generated resources',
  'Props/C02.lean proves, bottom-up and with no bound on list lengths or nesting: every element kind round-trips (Tag, Pronunciation, relations, Example, Count incl. decimal print/parse, Definition, ILIDefinition, Lemma/ExternalLemma, Form/ExternalForm, Sense/ExternalSense with subcat, SyntacticBehaviour in both encodings, entries, synsets with members/lexfile, Requires/Extends, Lexicon/LexiconExtension), metadata extraction inverts _meta_dict for every canonical metadata dictionary (all 17 keys), every dumped tree passes the loader structural checks (dumpTree_ok), and hence C02_load_dump: loadTree r.version (dumpTree r) = ok r for every resource in the loader normal form (NFresource: optional attributes absent rather than empty, flags absent rather than default, canonical metadata, ids in space-separated attributes non-empty and space-free, nothing a version cannot express) and C02_fixed_point. A concrete resource with an extension and every optional feature is shown to satisfy the hypotheses. Character-level XML escaping and expat tokenisation are outside the tree model: they are covered by the correspondence (real dump vs model tree, real load vs model load, byte fixed point on hostile strings) only.',
  'Trusted: Lean kernel, standard axioms; the ElementTree-based extraction of the tree from the dumped file in the harness; expat and the XML printer.'),
 'C03': (
  'Lean 4 model of _export.py over the relational model, tied by correspondence (export of real database vs model) and a document-level oracle (export then load then re-add); theorems on export composed with _insert_lexicon',
  'Random databases (lexicons with dependencies, proposed ILIs with/without definitions, frames in both encodings, side-by-side versions, metadata) are exported by the real library in every LMF version and compared with the model export; the exported file is loaded and compared with the added document, and re-added to an empty database whose observation must coincide. Proved in Props/C03.lean: C03_entries_round_trip (end to end: add a plain lexicon then export it in any version: the exported entries are the entries of the document in order with the same ids, lemmas (form, part of speech, script) and further forms (form, id, script)); lexicon attributes and metadata survive add-then-export (C03_lexicon_attributes), dependencies are exported exactly and round-trip through _insert_lexicon (C03_dependencies, C03_dependencies_round_trip), only own entries are exported, ILI / proposed-ILI encoding incl. proposed ILIs without definition (C03_ili_encoding, C03_proposed_ili), sense-frame links are preserved exactly in the 1.0 encoding (C03_frame_links_1_0) and the >=1.1 subcat encoding (C03_subcat_links). The full statement export o add = id is decided by correspondence + oracle (partial proof). Known finding F2-residual (frames without id in >=1.1 exports).',
  'Trusted: Lean kernel, standard axioms; SQLite index order of find_syntactic_behaviours is modelled (sorted by frame string) and validated by correspondence.'),
 'C04': (
  'Lean 4 theorems on the query layer (every query stays inside the selected lexicons, frame lemmas for owner-filtered tables) + correspondence/oracle over multi-lexicon worlds',
  'Props/C04.lean proves C04_frame_synsets_end_to_end (adding any lexicon that is not in a non-empty selection S leaves synsets() of S, under any id/pos/ILI filter, exactly as it was: composed from the add refinement of C01) and, for every database: words/senses/synsets returned for a selection are owned by selected lexicons (C04_inside_entries/senses/synsets), word.senses()/synset.members come from the scope, relation rows and targets are owned by lexicons in scope, expanded targets are resolved back into the scope or are placeholders, examples/counts are owner-filtered and adding rows owned by an unselected lexicon does not change them (C04_frame_examples), the scope used by entities (C04_scope); and a kernel-checked statement of the leak behind known findings F12/F13 (form tags have no owner filter). The real library is run on worlds with base + extension + unrelated lexicon + second version under every selection, compared with the model, and with an oracle computed from the selected documents only; adding/removing an unselected lexicon must not change any observation.',
  'Trusted: Lean kernel, standard axioms; correspondence harness. Known findings F12/F13 (unselected extension forms, tags, pronunciations leak), F5 (sense.word by id).'),
 'C05': (
  'Lean 4 proof that remove() preserves referential integrity and deletes exactly the owned rows (cascade model of schema.sql) + step-by-step correspondence over random histories + SQLite audits',
  'Props/C05.lean: for every database satisfying the 35 foreign-key clauses of schema.sql (FK), deleteLexicon and remove() (extensions first) again satisfy them (C05_no_dangling, C05_remove_no_dangling); nothing owned by the removed lexicon remains in any of 14 owned tables (C05_nothing_owned_remains); dependencies of other lexicons survive with provider set to NULL (C05_dependency_kept/unlinked); exactly the lexicon and its listed extensions disappear, other lexicon rows are kept unchanged (C05_remove_lexicons); the removed lexicon can be added again (C05_can_be_added_again) and adding a lexicon relinks the waiting dependencies on it (C05_dependencies_relinked); row-level frame theorems say which rows survive (iff); shared tables untouched. Random histories of add / remove / add-ILI over a universe with extensions of extensions, a dependant, two versions and an unrelated lexicon are executed on the real library and the model (agreement after every step), the final observation must equal a fresh database holding the installed lexicons, PRAGMA foreign_key_check / integrity_check must be clean. get_lexicon_extensions is closed under extends (C05_extensions_closed), hence after remove() no extension row points at a removed base (C05_remove_no_dangling_base). Known finding F12-residue.',
  'Trusted: Lean kernel, standard axioms; SQLite cascade execution and rowid allocation modelled (max+1), validated by correspondence; Model/Schema obligations tie the table list to schema.sql.'),
 'C06': (
  'Lean 4 proof over a transaction model (statement trace with rollback) that add/remove are atomic at every failure point + fault injection on the real library at every progress/authorizer callback',
  'Props/C06.lean: for every statement trace and every failure point the visible database is either the old or the complete new one (C06_atomic, C06_fail_at_any_point), a failed add leaves the store usable, success commits everything, add fails closed. The real add()/remove() are interrupted at every progress-handler tick and every n-th SQL statement (Exception, KeyboardInterrupt, custom BaseException, sqlite errors, disk-full simulation through set_authorizer) and the database is compared with the pre-state/post-state observations and re-used afterwards.',
  'Trusted: Lean kernel, standard axioms; SQLite journal/rollback implementation (runtime) is exercised by fault injection only; process kill / power loss are outside the model.'),
 'C07': (
  'Lean 4 proof of the routing and skip rules of add()/project iteration (Model/Project.lean) + correspondence on generated packages, collections, archives and skip combinations',
  'Props/C07.lean: add() routes a file, package directory, collection or archive to exactly the resources it contains, rejects what is none of these, the skip rules (already installed; extension without base; force) decide exactly which lexicons are inserted and a fully skipped call is a no-op. Generated project layouts (nested, compressed .xz/.gz/.tar, with ILI files, duplicate lexicons across files) are added to real databases and compared with the model decision and with the installed set.',
  'Trusted: Lean kernel, standard axioms; file-system walking and decompression are runtime behaviour covered by correspondence.'),
 'C08': (
  'Lean 4 proof that lexicon specifier matching is exact glob semantics with most-recent selection (Model/Glob.lean) + correspondence on random lexicon sets and specifiers',
  'Props/C08.lean: glob matching of id:version specifiers (literal, *, id:*, *:ver) is characterised exactly, a bare id selects the most recently added version and at most one, lang filters, unmatched specifiers raise, the union over a space-separated list is complete and duplicate-free. Real find_lexicons / Wordnet(lexicon=...) / lexicons() are compared with the model over random installed sets (several versions per id, unusual characters) and specifier strings.',
  'Trusted: Lean kernel, standard axioms; SQLite GLOB is modelled by the Lean matcher and validated by correspondence.'),
 'C09': (
  'Lean 4 proof of the two-pass look-up (_find_helper: exact forms first, normalized back-off, de-duplication) + correspondence with document-level oracle on generated lexicons and queries',
  'Props/C09.lean: the form condition of find_entries/senses/synsets, first pass = exact matches, back-off only when the first pass is empty and a normalizer is set, no duplicates, soundness and completeness of the union over lemmatizer proposals, the normalized_form column content. Real words()/senses()/synsets() with/without normalizer, search_all_forms and lemmatizers are compared with the model and an oracle over the documents (case/diacritics variants, forms shared between entries, pos filters).',
  'Trusted: Lean kernel, standard axioms; Unicode normalisation (NFKD, casefold) is a parameter of the model, computed by Python in the harness.'),
 'C10': (
  'Lean 4 theorems on navigation and translation (Model/Api.lean) + correspondence/oracle over multi-lexicon worlds with interleaved adds',
  'Props/C10.lean: word.senses()/synset.senses() list exactly the stored senses of that entry/synset owned by the scope (sound and complete), the observable sense carries the ids of the rows it references, translate() returns exactly the synsets of the target lexicons sharing the ILI (C10_translate_exact), nothing for a synset without ILI, same ILI, symmetry (C10_translate_symmetric); Sense.word() re-queries by id, with a kernel-checked two-version counter-example (known finding F5). Equality/hash by entity identity, word.synsets()/synset.words()/lemmas() as images, derived translations and the family cache across adds are decided by correspondence and oracle on the real API.',
  'Trusted: Lean kernel, standard axioms; Python object identity/hash is outside the model and checked on the real objects. Known finding F5.'),
 'C11': (
  'Lean 4 theorems: relation queries sound and complete w.r.t. declared rows, relation_map keys exact and duplicate-free, closure sound/duplicate-free/terminating, relation_paths simple + correspondence/oracle on cyclic graphs with extensions',
  'Props/C11.lean: get_synset_relations reports exactly the declared relations visible from the scope with the right name, source, target, lexicon and metadata (C11_synset_relations_sound / _complete up to the DISTINCT of the query), type restriction exact, relation_map has one entry per key, keys exactly those iterated, dc:type distinguishes keys, get_related duplicate-free, closure() terminates (structural), yields only reachable entities and none twice, relation_paths() yields only simple paths and terminates. closure() is also complete: every entity reachable over the relation is yielded, under an explicit bound relating the fuel to the number of identities and the out-degree (C11_closure_complete, generic lemma closureGen_complete). Real relations()/get_related()/relation_map()/closure()/relation_paths() on generated graphs with cycles, self-loops, parallel relations differing in dc:type and relations added by extensions are compared with model and oracle.',
  'Trusted: Lean kernel, standard axioms; correspondence harness.'),
 'C12': (
  'Lean 4 exact characterisation of expanded relations and of the default expand set (Model/Api.lean) + correspondence/oracle over worlds with expand lexicons',
  'Props/C12.lean: C12_expanded_exact characterises every borrowed relation (relation of an expand-lexicon synset sharing the ILI, target resolved to the scope synsets with the target ILI or the placeholder), targets carry that ILI and none is skipped, targets without ILI are dropped, the relation keeps the expand lexicon source/target/lexicon, own relations come first, expand=\'\' and ILI-less synsets use own relations only, default expansion of a restricted Wordnet is exactly its installed dependencies with the missing ones reported, an unrestricted one expands over all lexicons. Real Wordnet objects with explicit/default/empty expand are compared with the model and an oracle on generated worlds.',
  'Trusted: Lean kernel, standard axioms; the WnWarning is observed through warnings.catch_warnings in the harness.'),
 'C16': (
  'Lean 4 proof that results do not depend on set-iteration order at every place where the code iterates or hands over a set (sorted(common), sorted(set(..)), form IN (..)) + cross-process comparison under different PYTHONHASHSEEDs',
  'Props/C16.lean: a strictly sorted list is determined by its elements (sorted_unique); sorted(common) is the same for every enumeration of the set (C16_sorted_common_oblivious, C16_common_hypernyms_oblivious); sorted(set(strings)) depends only on membership (C16_sorted_set_oblivious); find_entries/find_senses/find_synsets are invariant under reordering/duplication of the candidate forms (C16_find_*_forms_oblivious). Everything else in the model is a deterministic function by construction. The real library is run in child processes with 3+ hash seeds (and reversed insertion order) over a battery of every public call, taxonomy, similarity, IC, validation, dump and export bytes; transcripts must be byte-identical.',
  'Trusted: Lean kernel, standard axioms; SQLite row order for identical files and queries is assumed deterministic (observed by the seed-to-seed comparison).'),
 'C18': (
  'Lean 4 proof that each validation code fires exactly on its defect (Model/Validate.lean), reverse-relation table proved involutive by kernel evaluation + correspondence on generated defective lexicons',
  'Props/C18.lean: reverse relation table is functional, involutive and closed (decide +kernel over all entries); check selection (select=) exact; per-code exactness for W201 W202 W203 E204 W301 W302 W303 W304 W305 W306 W307 E401 W402 W403 W501 W502 (duplicate counting through a proved Counter invariant, Lemmas/Counter.lean), soundness of W404; dangling targets do not crash. Real validate() on generated lexicons with injected defects of every kind is compared with the model report (codes, items, contexts).',
  'Trusted: Lean kernel, standard axioms; the table regenerated from wn/constants.py by the translator.'),
 'C19': (
  'Lean 4 proof that _add_ili only writes ilis/ili_statuses, gives every listed ILI the status and definition of its last row, creates unknown ones, keeps ids unique and is idempotent + correspondence/oracle on real index files',
  'Props/C19.lean (any database, any row list incl. duplicates): C19_frame (22 other tables equal), existing ILI rows keep rowid/id so synset links resolve the same (C19_links_resolve_same), C19_listed_updated / C19_unlisted_untouched / C19_listed_present, C19_ids_unique, C19_idempotent (loading the same file twice = once). C19_order_independent: loading the index before or after the presupposed-ILI pass of a lexicon gives every listed ILI the same status and definition (those of its last row); the real library is additionally run in both orders. Real add() of .tsv index files (two files, presupposed/active/deprecated statuses, quoted definitions, short rows) is compared with the model and a document oracle.',
  'Trusted: Lean kernel, standard axioms; TSV parsing (_ili.load) is modelled and validated by correspondence.'),
 'C20': (
  'Lean 4 proof that is_lmf agrees with the header check, unknown elements / repeated single-valued children / missing ids are rejected at any depth and rejection is whole-document; element tables proved equal to the tables regenerated from lmf.py; correspondence on mutated files',
  'Props/C20.lean: C20_islmf_iff_header, header version/rejection theorems, C20_unknown_element_rejected and C20_repeated_single_rejected for subtrees at any depth, missing id/version rejected for lexicons, entries, senses, synsets, errors propagate to the whole load (C20_rejected_as_a_whole), and obligations C20_gen_* tie xmldecl, doctypes, element tables, storage keys and the single-valued set to wn/lmf.py as regenerated on every run; every dumped tree is accepted (C02 dumpTree_ok). scan_lexicons agreeing with load is decided by correspondence (regex model vs real scan vs full load) on generated and mutated files. add() leaving the database unchanged on rejection is C06. Known finding F15 (scan label raw text).',
  'Trusted: Lean kernel, standard axioms; expat well-formedness checking is runtime behaviour exercised by the mutated-file stream.'),
 'C17': (
  'Lean 4 proof over a transcription of wn/morphy.py; rule table re-generated from the source and proved equal to the specification table on every run; correspondence on generated lexicons',
  'Theorems in Props/C17.lean: soundness (an initialised Morphy returns only lemmas of the requested part of speech), completeness for the query itself, for exception (irregular) forms and for every detachment rule, exact characterisation of the uninitialised result (rule outputs with proper suffixes only, plus the original form), the dictionary structure of __call__, and Gen.morphy_rules = rules. The real Morphy is run on generated lexicons (inflection-like lemmas, shared irregular forms, a/s, bare-suffix forms) x queries x pos in {None,n,v,a,s,r,x} x both modes and must agree with the model; Wordnet(lemmatizer=...) look-ups are judged against the union over proposed pairs with a document-level oracle (with and without normalizer).',
  'Trusted: Lean kernel, standard axioms; the translator that prints the rule table; wordnet.words()/forms() (C01).'),
}

NOT_YET = {}

ALL = [f'C{i:02d}' for i in range(1, 21)]


def main():
    checks = []
    for pid in ALL:
        if pid not in CLAIMED:
            continue
        tech, text, note = CLAIMED[pid]
        checks.append({
            'property_id': pid,
            'quick_cmd': f'./check {pid} --tier quick',
            'thorough_cmd': f'./check {pid} --tier thorough',
            'evidence_file': f'evidence/{pid}.json',
            'replay_cmd_template': f'./check {pid} --replay {{path}}',
            'engine': 'lean-model+correspondence',
            'technique': tech,
            'level_claimed': {'category': 'proof', 'text': text, 'design_ref': f'DESIGN.md section 7 {pid}'},
            'level_note': note,
        })
    na = [{'property_id': pid,
           'reason': NOT_YET.get(pid, 'check not built yet in this round (design in DESIGN.md section 7); no claim is made until the Lean model, its theorems and the correspondence exist')}
          for pid in ALL if pid not in CLAIMED]
    m = {
        'version': 1,
        'setup_cmd': '/venv/bin/python harness/setup.py',
        'hooks': {
            'guard': 'GOODMAMI_WN_VERIF',
            'enable': 'no hooks are needed: traces use sqlite3 set_trace_callback, faults use the public progress_handler / set_authorizer, BATCH_SIZE is lowered on the imported module',
            'baseline_off_cmd': 'cd /repo && /venv/bin/python -m pytest -ra -q -p no:cacheprovider --timeout=900 --continue-on-collection-errors',
            'source_commits': [],
            'add_only': True,
        },
        'engines': [{
            'name': 'lean-model+correspondence',
            'path': 'check',
            'serves_properties': [c['property_id'] for c in checks],
            'kind_free_text': 'Lean 4.33 theorems about a hand-written executable model (lean/WnVerif), Gen/*.lean regenerated from /repo on every run, JSON-lines correspondence between the compiled model driver and the real library, per-property oracles as failing-input search',
        }],
        'checks': checks,
        'not_applicable': na,
        'notes': 'fix: commits made in /repo are listed in known_findings.json ("fixed"); open findings are printed as KNOWN-FINDING lines.',
    }
    (ROOT / 'MANIFEST.json').write_text(json.dumps(m, indent=1) + '\n')
    print('claimed:', [c['property_id'] for c in checks])


if __name__ == '__main__':
    main()
