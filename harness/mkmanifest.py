"""Writes /verif/MANIFEST.json from the table below (run after editing)."""
import json
import pathlib

ROOT = pathlib.Path(__file__).resolve().parent.parent

TECH = 'Lean 4 theorems over a hand-written executable model + differential correspondence (model driver vs real library) + regenerated Gen obligations'

# pid -> (technique, level text, level note)
CLAIMED = {
 'C13': (
  'Lean 4 proof over an executable graph model (relation_paths, taxonomy.py); correspondence on enumerated/random digraphs',
  'Theorems in lean/WnVerif/Props/C13.lean characterise hypernym_paths (all maximal simple chains, any finite digraph, no size bound), min/max depth, common/lowest common hypernyms and shortest_path of the Lean model of wn/taxonomy.py and _Relatable.relation_paths; taxonomy_depth is proved for acyclic graphs only (_partial) with a kernel-checked cyclic counter-example (known finding F14). The model is tied to the code by running model and wn.taxonomy on the same digraphs (all labelled digraphs on <=2 nodes, a sample / all of the 512 on 3 nodes, random graphs up to 8-10 nodes, every node, every ordered pair, simulate_root on/off) and by independent graph-algorithm oracles on the real API.',
  'Trusted: Lean kernel; axioms propext/Classical.choice/Quot.sound only; the correspondence harness; SQLite row order of get_synset_relations and rowid allocation are modelled, not verified.'),
 'C14': (
  'Lean 4 proof over exact rationals (similarity formulas, Real.log for lch) + correspondence of wn.similarity with the model on enumerated/random digraphs and IC weights',
  'Theorems in Props/C14.lean: path in [0,1], =1 iff distance 0, =0 iff unconnected; wup in (0,1], =1 for identical synsets; self-maximality of path, wup and (over Mathlib Real.log, for every depth D>0) lch; symmetry of the wup formula; part-of-speech compatibility (a ~ s) and the error branches. The model computes path/wup/lch/res/jcn/lin as exact rationals (log arguments); the check requires the library float to equal the correctly rounded rational (path, wup), -math.log(num/den) (lch) or the formula on the model rationals within 1e-9 (res/jcn/lin), for all ordered pairs x simulate_root, and judges the documented formulas, symmetry, ranges and error cases with independent oracles. res deviates from the documented maximum over common subsumers: known finding F19.',
  'Trusted: Lean kernel, standard axioms; float rounding and math.log are runtime behaviour covered by correspondence only; the LCS selection depends on taxonomy.py (C13 model).'),
 'C15': (
  'Lean 4 proof: worklist walk = reachability without duplicates (any finite graph, cycles included), closed form of every weight, monotonicity, probability range; correspondence of wn.ic.compute with exact rationals',
  'Theorems in Props/C15.lean: the ancestor walk of compute() terminates for every finite hypernym graph and visits exactly the word synset and its ancestors, each once (C15_touched, via Lemmas/Walk.lean: sound, complete, nodup, fuel bound); C15_once / C15_total give the closed form of every synset weight and part-of-speech total; C15_monotone, C15_le_total, C15_prob_range, C15_prob_monotone derive monotonicity and 0 < p <= 1 (for smoothing > 0 and hypernymy inside one a/s-folded part of speech); unknown words ignored; s counted as a. Tied to wn/ic.py by running compute() on random graphs x corpora x distribute x smoothing and comparing every weight with the exact rational (1e-9 relative), plus an independent Fraction/BFS oracle and a load() file check.',
  'Trusted: Lean kernel, standard axioms; float summation order, wordnet.synsets(word) lookup (C09) and file parsing of load() are covered by correspondence/oracle only.'),
 'C01': (
  'Lean 4 executable relational model of _add.py/_queries.py/_core.py (layer B) tied by full-observation correspondence; document-level oracle; proofs on the model (see level text)',
  'The whole add path (_precheck, lookup tables, _collect_frames, _insert_lexicon, lexid map, the fifteen _insert_* steps with their sub-select resolutions, NOT NULL/UNIQUE failures) and the query/entity layer are transcribed into Lean (Model/Add.lean, Query.lean, Api.lean, ~1500 lines) and run against the real library on generated resources (LMF 1.0-1.3, hostile strings, metadata everywhere, extensions using every documented pattern, extensions of extensions, lowered BATCH_SIZE): the complete public-API observation of every lexicon must agree with the model and with an independent document-level oracle field by field. Theorems currently proved over this model are listed in the evidence (theorems); the refinement theorem (decode after add = document) is proved for the slice named there and stated _partial for the rest.',
  'Trusted: Lean kernel, standard axioms; SQLite storage/ordering and the JSON metadata adapter are covered by correspondence only. Known finding F12 (unscoped tags/pronunciations).'),
 'C05': (
  'Lean 4 relational model with remove()/cascade (Model/Remove.lean, schema re-checked against Gen.schema) tied by step-by-step correspondence over random histories; fresh-database oracle + SQLite audits',
  'Random histories of add / remove (ids, versions, star patterns, lists) / add-ILI over a universe with extensions of extensions, a dependant, two versions of one id and an unrelated lexicon are executed on the real library and on the Lean model; observations agree after every step. The final observation must equal that of a fresh database holding exactly the installed lexicons, PRAGMA foreign_key_check / integrity_check must be clean and every owned row must belong to an installed lexicon. Theorems proved over the model are listed in the evidence. Known finding F12 (tags/pronunciations of a removed extension survive).',
  'Trusted: Lean kernel, standard axioms; SQLite cascade execution and rowid allocation modelled (max+1), validated by correspondence.'),
 'C17': (
  'Lean 4 proof over a transcription of wn/morphy.py; rule table re-generated from the source and proved equal to the specification table on every run; correspondence on generated lexicons',
  'Theorems in Props/C17.lean: soundness (an initialised Morphy returns only lemmas of the requested part of speech), completeness for the query itself, for exception (irregular) forms and for every detachment rule, exact characterisation of the uninitialised result (rule outputs with proper suffixes only, plus the original form), the dictionary structure of __call__, and Gen.morphy_rules = rules. The real Morphy is run on generated lexicons (inflection-like lemmas, shared irregular forms, a/s, bare-suffix forms) x queries x pos in {None,n,v,a,s,r,x} x both modes and must agree with the model; Wordnet(lemmatizer=...) look-ups are judged against the union over proposed pairs with a document-level oracle (with and without normalizer).',
  'Trusted: Lean kernel, standard axioms; the translator that prints the rule table; wordnet.words()/forms() (C01).'),
}

NOT_YET = {}

ALL = [f'C{i:02d}' for i in range(1, 21)]


def main():
    checks = []
    for pid in ALL:
        if pid not in CLAIMED:
            continue
        tech, text, note = CLAIMED[pid]
        checks.append({
            'property_id': pid,
            'quick_cmd': f'./check {pid} --tier quick',
            'thorough_cmd': f'./check {pid} --tier thorough',
            'evidence_file': f'evidence/{pid}.json',
            'replay_cmd_template': f'./check {pid} --replay {{path}}',
            'engine': 'lean-model+correspondence',
            'technique': tech,
            'level_claimed': {'category': 'proof', 'text': text, 'design_ref': f'DESIGN.md section 7 {pid}'},
            'level_note': note,
        })
    na = [{'property_id': pid,
           'reason': NOT_YET.get(pid, 'check not built yet in this round (design in DESIGN.md section 7); no claim is made until the Lean model, its theorems and the correspondence exist')}
          for pid in ALL if pid not in CLAIMED]
    m = {
        'version': 1,
        'setup_cmd': '/venv/bin/python harness/setup.py',
        'hooks': {
            'guard': 'GOODMAMI_WN_VERIF',
            'enable': 'no hooks are needed: traces use sqlite3 set_trace_callback, faults use the public progress_handler / set_authorizer, BATCH_SIZE is lowered on the imported module',
            'baseline_off_cmd': 'cd /repo && /venv/bin/python -m pytest -ra -q -p no:cacheprovider --timeout=900 --continue-on-collection-errors',
            'source_commits': [],
            'add_only': True,
        },
        'engines': [{
            'name': 'lean-model+correspondence',
            'path': 'check',
            'serves_properties': [c['property_id'] for c in checks],
            'kind_free_text': 'Lean 4.33 theorems about a hand-written executable model (lean/WnVerif), Gen/*.lean regenerated from /repo on every run, JSON-lines correspondence between the compiled model driver and the real library, per-property oracles as failing-input search',
        }],
        'checks': checks,
        'not_applicable': na,
        'notes': 'fix: commits made in /repo are listed in known_findings.json ("fixed"); open findings are printed as KNOWN-FINDING lines.',
    }
    (ROOT / 'MANIFEST.json').write_text(json.dumps(m, indent=1) + '\n')
    print('claimed:', [c['property_id'] for c in checks])


if __name__ == '__main__':
    main()
