"""Real-library environment helpers: fresh database per scenario, XML writing."""
import os, sys, shutil, tempfile, pathlib, io, contextlib, warnings

REPO = os.environ.get('WN_REPO', '/repo')
if REPO not in sys.path:
    sys.path.insert(0, REPO)

import wn  # noqa: E402
from wn import _db  # noqa: E402

_current_dir = None


def close_pool():
    for c in list(_db.pool.values()):
        try:
            c.close()
        except Exception:
            pass
    _db.pool.clear()


def fresh_db():
    """Point wn at a brand-new empty data directory (removing the previous one)."""
    global _current_dir
    close_pool()
    if _current_dir and os.path.isdir(_current_dir):
        shutil.rmtree(_current_dir, ignore_errors=True)
    _current_dir = tempfile.mkdtemp(prefix='wnverif-db-')
    wn.config.data_directory = _current_dir
    return _current_dir


def cleanup():
    global _current_dir
    close_pool()
    if _current_dir and os.path.isdir(_current_dir):
        shutil.rmtree(_current_dir, ignore_errors=True)
    _current_dir = None


def workdir():
    d = tempfile.mkdtemp(prefix='wnverif-files-')
    return pathlib.Path(d)


@contextlib.contextmanager
def quiet():
    with warnings.catch_warnings():
        warnings.simplefilter('ignore')
        yield
