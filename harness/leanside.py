"""Lean side of a check: regenerate Gen/*.lean from /repo, build, audit, run the driver."""
import fcntl
import json
import os
import pathlib
import re
import subprocess
import sys
import time

ROOT = pathlib.Path(__file__).resolve().parent.parent
LEAN = ROOT / 'lean'
PROPS = LEAN / 'WnVerif' / 'Props'
GEN = LEAN / 'WnVerif' / 'Gen'
DRIVER = LEAN / '.lake' / 'build' / 'bin' / 'wndriver'
ALLOWED_AXIOMS = {'propext', 'Classical.choice', 'Quot.sound'}
FORBIDDEN = re.compile(
    r'\bsorry\b|\badmit\b|^\s*axiom\s|native_decide|bv_decide|implemented_by|'
    r'\bunsafe\s|maxHeartbeats\s+0|\bextern\b')
PY = sys.executable


def _run(cmd, cwd=LEAN, timeout=3600, env=None):
    e = dict(os.environ)
    if env:
        e.update(env)
    p = subprocess.run(cmd, cwd=cwd, stdout=subprocess.PIPE, stderr=subprocess.STDOUT,
                       text=True, timeout=timeout, env=e)
    return p.returncode, p.stdout


class lock:
    def __enter__(self):
        LEAN.mkdir(exist_ok=True)
        self.fh = open(LEAN / '.lock', 'w')
        fcntl.flock(self.fh, fcntl.LOCK_EX)
        return self

    def __exit__(self, *a):
        fcntl.flock(self.fh, fcntl.LOCK_UN)
        self.fh.close()


def translate():
    """Tie 1: regenerate Gen/*.lean from the current /repo (content-addressed)."""
    rc, out = _run([PY, str(ROOT / 'harness' / 'translate.py')], cwd=ROOT, timeout=300)
    if rc != 0:
        return {'ok': False, 'error': out[-3000:], 'files': {}}
    try:
        files = json.loads(out.strip().splitlines()[-1])
    except Exception:
        files = {}
    return {'ok': True, 'files': files}


def theorem_names(pid):
    """Property theorems = every `theorem` declared in Props/<pid>.lean."""
    f = PROPS / f'{pid}.lean'
    if not f.exists():
        return []
    names = []
    ns = []
    for line in f.read_text().splitlines():
        m = re.match(r'^namespace\s+(\S+)', line)
        if m:
            ns.append(m.group(1))
            continue
        if re.match(r'^end\s+\S+', line) and ns:
            ns.pop()
            continue
        m = re.match(r'^(?:@\[[^\]]*\]\s*)?theorem\s+(\S+)', line)
        if m:
            names.append('.'.join(ns + [m.group(1)]))
    return names


def theorem_lines(pid):
    f = PROPS / f'{pid}.lean'
    res = []
    for i, line in enumerate(f.read_text().splitlines(), 1):
        m = re.match(r'^(?:@\[[^\]]*\]\s*)?theorem\s+(\S+)', line)
        if m:
            res.append((i, m.group(1)))
    return res


def write_if_changed(path, text):
    path = pathlib.Path(path)
    if path.exists() and path.read_text() == text:
        return False
    path.parent.mkdir(parents=True, exist_ok=True)
    path.write_text(text)
    return True


def strip_comments(text):
    text = re.sub(r'/-.*?-/', lambda m: '\n' * m.group(0).count('\n'), text, flags=re.S)
    text = re.sub(r'--.*', '', text)
    return text


def audit_sources():
    problems = []
    for f in sorted(LEAN.rglob('*.lean')):
        if '.lake' in f.parts:
            continue
        body = strip_comments(f.read_text())
        for i, line in enumerate(body.splitlines(), 1):
            if FORBIDDEN.search(line):
                problems.append(f'{f.relative_to(LEAN)}:{i}: {line.strip()[:120]}')
    return problems


def build_all():
    """translate + lake build of the library and the driver (under the lock)."""
    report = {}
    with lock():
        t = translate()
        report['translate'] = t
        t0 = time.time()
        rc, out = _run(['lake', 'build', 'WnVerif', 'wndriver'])
        report['build_rc'] = rc
        report['build_out'] = out[-6000:]
        report['build_s'] = round(time.time() - t0, 1)
    return report


def prepare(pid, thorough=False):
    """Everything the Lean side contributes to one check.  Never raises: a broken
    build is reported, the caller then runs the failing-input search."""
    rep = {'theorems': {}, 'axioms': {}, 'audit_problems': [], 'build_error': None,
           'gen_files': {}, 'driver_ok': False,
           'checker_cmd': f'cd lean && lake build WnVerif.Props.{pid} && lake env lean WnVerif/Axioms{pid}.lean'}
    names = theorem_names(pid)
    with lock():
        t = translate()
        rep['gen_files'] = t.get('files', {})
        if not t['ok']:
            rep['build_error'] = 'translator failed: ' + t.get('error', '')
        # the model + driver
        rc, out = _run(['lake', 'build', 'wndriver'])
        rep['driver_ok'] = (rc == 0 and DRIVER.exists())
        if rc != 0:
            rep['build_error'] = (rep['build_error'] or '') + '\ndriver build failed:\n' + out[-3000:]
        # the property module
        rc, out = _run(['lake', 'build', f'WnVerif.Props.{pid}'])
        failed_lines = []
        if rc != 0:
            for m in re.finditer(r'error: (?:\./)?(?:\./)?WnVerif/Props/%s\.lean:(\d+):(\d+): (.*)' % pid, out):
                failed_lines.append((int(m.group(1)), m.group(3)))
            other = [ln for ln in out.splitlines() if ln.startswith('error:')
                     and f'Props/{pid}.lean' not in ln]
            tl = theorem_lines(pid)
            bad = set()
            for ln, msg in failed_lines:
                owner = None
                for (l0, nm) in tl:
                    if l0 <= ln:
                        owner = nm
                if owner:
                    bad.add(owner)
            for full in names:
                short = full.split('.')[-1]
                if short in bad:
                    rep['theorems'][full] = 'FAILED: no longer checks'
                else:
                    rep['theorems'][full] = 'UNCHECKED: its module does not compile'
            rep['build_error'] = (rep['build_error'] or '') + f'\nProps.{pid} does not build:\n' + out[-3000:]
        else:
            # axioms audit
            ax = '\n'.join([f'import WnVerif.Props.{pid}'] +
                           [f'#print axioms {n}' for n in names]) + '\n'
            write_if_changed(LEAN / 'WnVerif' / f'Axioms{pid}.lean', ax)
            rc2, out2 = _run(['lake', 'env', 'lean', f'WnVerif/Axioms{pid}.lean'])
            got = {}
            for m in re.finditer(r"'(\S+)' depends on axioms: \[([^\]]*)\]", out2.replace('\n', ' ')):
                got[m.group(1)] = [a.strip() for a in m.group(2).split(',') if a.strip()]
            for m in re.finditer(r"'(\S+)' does not depend on any axioms", out2):
                got[m.group(1)] = []
            for full in names:
                if full not in got:
                    rep['theorems'][full] = 'UNCHECKED: #print axioms produced no answer'
                    continue
                extra = [a for a in got[full] if a not in ALLOWED_AXIOMS]
                rep['axioms'][full] = got[full]
                rep['theorems'][full] = 'proved' if not extra else f'FAILED: uses axioms {extra}'
            if thorough:
                rc3, out3 = _run(['lake', 'env', 'leanchecker', f'WnVerif.Props.{pid}'], timeout=1800)
                rep['leanchecker'] = 'ok' if rc3 == 0 else out3[-1500:]
                if rc3 != 0:
                    rep['audit_problems'].append('leanchecker rejected the module: ' + out3[-300:])
    rep['audit_problems'] += audit_sources()
    if not names:
        rep['audit_problems'].append(f'no theorem found in Props/{pid}.lean')
    return rep


def run_driver(requests, timeout=1800):
    """Feed JSON requests (list of dicts) to the compiled model driver."""
    if not requests:
        return []
    data = '\n'.join(json.dumps(r, ensure_ascii=False) for r in requests) + '\n'
    if DRIVER.exists():
        cmd = [str(DRIVER)]
    else:
        cmd = ['lake', 'env', 'lean', '--run', 'Driver.lean']
    p = subprocess.run(cmd, cwd=LEAN, input=data.encode('utf-8'), stdout=subprocess.PIPE,
                       stderr=subprocess.PIPE, timeout=timeout)
    if p.returncode != 0:
        raise RuntimeError('driver failed: ' + p.stderr.decode('utf-8', 'replace')[-2000:])
    lines = [ln for ln in p.stdout.decode('utf-8').split('\n') if ln.strip()]
    if len(lines) != len(requests):
        raise RuntimeError(f'driver answered {len(lines)} lines for {len(requests)} requests')
    return [json.loads(ln) for ln in lines]
