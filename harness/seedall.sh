#!/bin/bash
# maintenance: run every seeded change against the quick check of its property, in the repo given by $WN_REPO
# (a scratch copy, e.g. the snapshot of `vp run --with-repo`); prints one line per change, MISSED where exit != 1
cd "$(dirname "$0")/.."
R=${WN_REPO:?set WN_REPO to a scratch checkout of the library}
/venv/bin/python harness/setup.py > /dev/null 2>&1
for d in seeded/*/; do
  n=$(basename $d)
  pid=$(python3 -c "import json;print(json.load(open('$d/meta.json'))['breaks_property'])")
  git -C $R checkout -q -- . ; git -C $R apply $PWD/$d/patch.diff || { echo "$n APPLY-FAILED"; continue; }
  out=$(./check $pid 2>&1 | grep "^\[C\|^VIOLATION")
  git -C $R checkout -q -- .
  if echo "$out" | grep -q "exit=1" && echo "$out" | grep "^VIOLATION" | grep -vq "no-failing-input-found"; then echo "$n detected"; else echo "$n MISSED $(echo "$out" | tail -1)"; fi
done
echo "all done"
