"""Maintenance: regenerate the table of seeded changes in DESIGN.md (section 0.6) from seeded/*/meta.json."""
import json
import pathlib
import re

ROOT = pathlib.Path(__file__).resolve().parent.parent
rows = []
for d in sorted((ROOT / 'seeded').iterdir()):
    mf = d / 'meta.json'
    if not mf.exists():
        continue
    m = json.loads(mf.read_text())
    needs = ' '.join(str(m.get('needs_to_manifest', '')).split())
    needs = re.sub(r'^#[^-*]*?(?=[-*] )', '', needs).replace('|', '/')[:200]
    by, clause = [], []
    for pid, v in m.get('detected_by', {}).items():
        if isinstance(v, dict) and v.get('exit') == 1 and any('VIOLATION' in x for x in v.get('lines', [])):
            by.append(pid)
            c = v.get('clause')
            if c:
                clause += [x for x in (c if isinstance(c, list) else [c]) if x != 'correspondence'] or ['correspondence']
    rows.append(f"| `{d.name}` | {m['breaks_property']} | {needs} | {', '.join(by) or '**missed**'} | {'; '.join(dict.fromkeys(clause))} |")
hdr = '| seeded change | property | what has to happen for it to show | reported by (quick check) | oracle clause of the first replay |\n|---|---|---|---|---|\n'
p = ROOT / 'DESIGN.md'
s = p.read_text()
a = s.index('| seeded change | property |')
b = s.index('### 0.6b')
s = s[:a] + hdr + '\n'.join(rows) + '\n\n' + s[b:]
p.write_text(s)
print(len(rows), 'rows;', sum('**missed**' in r for r in rows), 'missed')
