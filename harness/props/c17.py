"""C17 — Morphy returns only valid lemmas when initialized and all candidates otherwise."""
import json
import shutil

import docs
import leanside

PID = 'C17'
RULE = ('one evaluation = one (lexicon, query form, pos, initialized?) call of wn.morphy.Morphy compared with the Lean model, '
        'plus Wordnet(lemmatizer=...) look-ups compared with the union over the proposed (pos, form) pairs; '
        'non-trivial = the result contains a rule-derived or exception-derived lemma different from the query; '
        'distinct = distinct (lexicon, query, pos, mode)')
ASSUMPTIONS = ['wordnet.words() / Word.forms() report the document\'s words (C01); the model receives the words from the document']
SUFFIXES = ['s', 'ces', 'ses', 'ves', 'ives', 'xes', 'zes', 'ches', 'shes', 'men', 'ies', 'es', 'ed', 'ing', 'er', 'est']
POSES = [None, 'n', 'v', 'a', 's', 'r', 'x']


def gen_lexicon(rng, k):
    """a lexicon whose lemmas are inflection-like, with irregular forms shared between words
    and parts of speech, a/s entries and forms equal to a bare suffix"""
    stems = ['wolf', 'wol', 'church', 'ch', 'ax', 'axis', 'axe', 'man', 'woman', 'fl', 'fly', 'go', 'goe', 'lov', 'love',
             'fine', 'fin', 'cold', 'box', 'boxis', 'quiz', 'wish', 'lif', 'life', 'knif', 'knife', 'bak', 'bake',
             'run', 'see', 'saw', 'well', 'good', 's', 'es', 'ed', 'er', 'ing', 'x', 'y', 'e', 'found', 'find', 'lay', 'lie']
    n = rng.randint(3, 10)
    entries = []
    lexid = f'm{k}'
    irregular = rng.sample(stems, 3) + ['went', 'geese', 'better', 'found', 'lay', 'saw']
    for i in range(n):
        pos = rng.choice(['n', 'v', 'a', 's', 'r', 'n', 'v'])
        lemma = rng.choice(stems)
        forms = []
        for _ in range(rng.choice([0, 0, 1, 2])):
            f = rng.choice(irregular + [lemma + rng.choice(SUFFIXES)])
            if f != lemma and f not in forms:
                forms.append(f)
        e = {'id': f'{lexid}-w{i}', 'meta': None, 'lemma': {'writtenForm': lemma, 'partOfSpeech': pos},
             'senses': [{'id': f'{lexid}-w{i}-s0', 'synset': f'{lexid}-ss0', 'meta': None}]}
        if forms:
            # some forms (and lemmas) carry a script: Form objects of equal text but different script
            # compare unequal, which must not hide a lemma from the exception map (fixed in 01ec6b6)
            e['forms'] = [dict({'writtenForm': f}, **({'script': rng.choice(['Latn', 'Cyrl'])} if rng.random() < 0.3 else {}))
                          for f in forms]
        if rng.random() < 0.15:
            e['lemma']['script'] = 'Latn'
        entries.append(e)
    if rng.random() < 0.5:
        # two words of one part of speech listing the same additional form, one of them with a script
        pos = rng.choice(['n', 'v', 'a', 'r'])
        shared = rng.choice(['went', 'geese', 'better'])
        for j, (lemma, script) in enumerate([(rng.choice(stems[:20]), 'Latn'), (rng.choice(stems[20:]), None)]):
            i = len(entries)
            entries.append({'id': f'{lexid}-w{i}', 'meta': None, 'lemma': {'writtenForm': lemma, 'partOfSpeech': pos},
                            'forms': [dict({'writtenForm': shared}, **({'script': script} if script else {}))],
                            'senses': [{'id': f'{lexid}-w{i}-s0', 'synset': f'{lexid}-ss0', 'meta': None}]})
    if rng.random() < 0.6:
        # a form that is a lemma of one word and an additional form of another word of the same part of speech
        pos = rng.choice(['n', 'v', 'a', 's', 'r'])
        a, b = rng.sample(stems, 2)
        for lemma, forms in ((a, []), (b, [a])):
            i = len(entries)
            e = {'id': f'{lexid}-w{i}', 'meta': None, 'lemma': {'writtenForm': lemma, 'partOfSpeech': pos},
                 'senses': [{'id': f'{lexid}-w{i}-s0', 'synset': f'{lexid}-ss0', 'meta': None}]}
            if forms:
                e['forms'] = [{'writtenForm': f} for f in forms]
            entries.append(e)
    lx = {'id': lexid, 'version': '1', 'label': 'morphy test', 'language': 'en', 'email': 'a@b.c', 'license': 'L',
          'meta': None, 'entries': entries,
          'synsets': [{'id': f'{lexid}-ss0', 'ili': '', 'partOfSpeech': 'n', 'meta': None}]}
    return lx


def queries(rng, lx, k):
    qs = set()
    stored = []
    for e in lx['entries']:
        stored.append(e['lemma']['writtenForm'])
        stored += [f['writtenForm'] for f in e.get('forms', [])]
    for s in stored:
        qs.add(s)
        for suf in rng.sample(SUFFIXES, 5):
            qs.add(s + suf)
        # replace-type rules: x->ces, f->ves, ife->ives, man->men, y->ies, xis->xes
        for a, b in (('x', 'ces'), ('f', 'ves'), ('ife', 'ives'), ('man', 'men'), ('y', 'ies'), ('xis', 'xes'), ('e', 'ing'), ('e', 'ed'), ('e', 'er'), ('e', 'est')):
            if s.endswith(a):
                qs.add(s[:-len(a)] + b)
    qs.update(SUFFIXES)
    qs.update(['unrelated', 'zzz', '', 'Wolves'])
    qs = sorted(qs)
    rng.shuffle(qs)
    return qs[:k]


def _impl(args):
    lx, qs = args
    import wnenv
    wn = wnenv.wn
    from wn.morphy import Morphy
    wnenv.fresh_db()
    d = wnenv.workdir()
    try:
        f = d / 'm.xml'
        f.write_text(docs.to_xml(docs.resource([lx], '1.1')), encoding='utf-8')
        wn.add(f, progress_handler=None)
        spec = f"{lx['id']}:1"
        w = wn.Wordnet(spec)
        out = {'init': [], 'uninit': [], 'wn': []}
        # a second lexicon holding the candidate lemmas the first one lacks, with its own initialised Morphy in
        # the same process: each Morphy answers from the words of its own wordnet only
        have = {(e['lemma']['partOfSpeech'], e['lemma']['writtenForm']) for e in lx['entries']}
        cands = []
        for q in qs:
            for pp, forms in Morphy()(q, None).items():
                for ff in forms:
                    if pp in ('n', 'v', 'a', 'r', 's') and (pp, ff) not in have and (pp, ff) not in cands:
                        cands.append((pp, ff))
        cands = cands[:40]
        if cands:
            zz = {'id': 'zz', 'version': '1', 'label': 'other', 'language': 'en', 'email': 'a@b.c', 'license': 'L', 'meta': None,
                  'entries': [{'id': f'zz-{i}', 'meta': None, 'lemma': {'writtenForm': ff, 'partOfSpeech': pp},
                               'senses': [{'id': f'zz-{i}-s', 'synset': f'zz-ss-{i}', 'meta': None}]} for i, (pp, ff) in enumerate(cands)],
                  'synsets': [{'id': f'zz-ss-{i}', 'ili': '', 'partOfSpeech': pp, 'meta': None} for i, (pp, ff) in enumerate(cands)]}
            fz = d / 'zz.xml'
            fz.write_text(docs.to_xml(docs.resource([zz], '1.1')), encoding='utf-8')
            wn.add(fz, progress_handler=None)
        mi, mu = Morphy(w), Morphy()
        if cands:
            mz = Morphy(wn.Wordnet('zz:1'))
            mz('axes')
        canon = lambda r: {('None' if k is None else k): sorted(v) for k, v in r.items()}
        for q in qs:
            for p in POSES:
                out['init'].append(canon(mi(q, p)))
                out['uninit'].append(canon(mu(q, p)))
        # Wordnet-level: union over the proposed (pos, form) pairs (no normalizer: exact matching)
        plain = wn.Wordnet(spec, normalizer=None)
        for mode, m in (('init', mi), ('uninit', mu)):
            if mode == 'init':
                # the documented way to use an initialised Morphy: assign it to the Wordnet it was built from
                lw = wn.Wordnet(spec, normalizer=None)
                lw.lemmatizer = m
            else:
                lw = wn.Wordnet(spec, normalizer=None, lemmatizer=m)
            for q in qs[:12]:
                for p in (None, 'n', 'v', 'x'):
                    got = [x.id for x in lw.words(q, p)]
                    prop = m(q, p) or {p: {q}}
                    exp = []
                    for pp, forms in prop.items():
                        for ff in forms:
                            exp += [x.id for x in plain.words(ff, pp)]
                    gots = [x.id for x in lw.senses(q, p)]
                    exps = []
                    for pp, forms in prop.items():
                        for ff in forms:
                            exps += [x.id for x in plain.senses(ff, pp)]
                    out['wn'].append({'mode': mode, 'q': q, 'pos': p, 'got': got, 'union': sorted(set(exp)),
                                      'got_senses': gots, 'union_senses': sorted(set(exps))})
        # two selected lexicons that use the same ids (two versions of one lexicon): the union keeps both
        import copy
        lx2 = copy.deepcopy(lx)
        lx2['version'] = '2'
        f2 = d / 'm2.xml'
        f2.write_text(docs.to_xml(docs.resource([lx2], '1.1')), encoding='utf-8')
        wn.add(f2, progress_handler=None)
        spec2 = f"{lx['id']}:2"
        singles = [wn.Wordnet(spec, normalizer=None), wn.Wordnet(spec2, normalizer=None)]
        key = lambda x: x.lexicon().specifier() + '/' + x.id
        for mode, m in (('init', mi), ('uninit', mu)):
            lw = wn.Wordnet(spec + ' ' + spec2, normalizer=None, lemmatizer=m)
            for q in qs[:8]:
                for p in (None, 'n', 'v'):
                    prop = m(q, p) or {p: {q}}
                    got = [key(x) for x in lw.words(q, p)]
                    gots = [key(x) for x in lw.senses(q, p)]
                    exp, exps = [], []
                    for pp, forms in prop.items():
                        for ff in forms:
                            for one in singles:
                                exp += [key(x) for x in one.words(ff, pp)]
                                exps += [key(x) for x in one.senses(ff, pp)]
                    out['wn'].append({'mode': mode + '+two-versions', 'q': q, 'pos': p, 'got': got, 'union': sorted(set(exp)),
                                      'got_senses': gots, 'union_senses': sorted(set(exps))})
        # default normalizer: the documented two-pass procedure over all proposed pairs
        import lookup
        for mode, m in (('init', mi), ('uninit', mu)):
            lw = wn.Wordnet(spec, lemmatizer=m)
            for q in qs[:20]:
                for p in (None, 'n', 'v', 'a'):
                    got = sorted(x.id for x in lw.words(q, p))
                    exp = sorted(e['id'] for e in lookup.find_entries(lx['entries'], q, p, True, m))
                    gots = sorted(x.id for x in lw.senses(q, p))
                    exps = sorted(s['id'] for e in lookup.find_entries(lx['entries'], q, p, True, m) for s in e.get('senses', []))
                    out['wn'].append({'mode': mode + '+normalizer', 'q': q, 'pos': p, 'got': got, 'union': exp,
                                      'got_senses': gots, 'union_senses': exps})
        return out
    finally:
        shutil.rmtree(d, ignore_errors=True)
        wnenv.cleanup()


def words_of(lx):
    return [[e['lemma']['partOfSpeech'], [e['lemma']['writtenForm']] + [f['writtenForm'] for f in e.get('forms', [])]]
            for e in lx['entries']]


def oracle(ctx, lx, q, p, init, got):
    """the statement, directly from the document"""
    from wn.morphy import DETACHMENT_RULES  # only for the key order; rules come from the spec table below
    ws = words_of(lx)
    sc = {'lexicon_words': ws, 'lexicon': lx, 'query': q, 'pos': p, 'initialized': init}
    poslist = ['n', 'v', 'a', 'r', 's'] if p is None else ([p] if p in ('n', 'v', 'a', 'r', 's') else [])
    for pos in poslist:
        lemmas = {fs[0] for pp, fs in ws if pp == pos}
        res = set(got.get(pos, []))
        rule_out = set()
        for suf, repl in SPEC_RULES[pos]:
            if q.endswith(suf) and len(suf) < len(q):
                rule_out.add(q[:len(q) - len(suf)] + repl)
        if init:
            if not res <= lemmas:
                ctx.fail('initialized-returns-only-lemmas-of-that-pos', sc, {'pos': pos, 'got': sorted(res), 'not_lemmas': sorted(res - lemmas)})
            if q in lemmas and q not in res:
                ctx.fail('initialized-includes-the-query-itself-when-it-is-a-lemma', sc, {'pos': pos, 'got': sorted(res)})
            exc = {fs[0] for pp, fs in ws if pp == pos and q in fs[1:]}
            if not exc <= res:
                ctx.fail('initialized-includes-lemmas-of-words-listing-the-query-as-a-form', sc, {'pos': pos, 'got': sorted(res), 'missing': sorted(exc - res)})
            if not (rule_out & lemmas) <= res:
                ctx.fail('initialized-includes-every-lemma-obtained-by-a-rule', sc, {'pos': pos, 'got': sorted(res), 'missing': sorted((rule_out & lemmas) - res)})
            if not res <= ({q} | exc | rule_out):
                ctx.fail('initialized-returns-nothing-else', sc, {'pos': pos, 'got': sorted(res)})
        else:
            allowed = rule_out | {q}
            base = set(got.get('None' if p is None else p, []))
            if q not in base:
                ctx.fail('uninitialized-returns-the-original-form', sc, {'got': got})
            if not rule_out <= (res | ({q} if p is None else set())):
                ctx.fail('uninitialized-returns-every-rule-output', sc, {'pos': pos, 'got': sorted(res), 'missing': sorted(rule_out - res)})
            if not res <= allowed:
                ctx.fail('uninitialized-never-detaches-a-whole-word-suffix-or-invents-forms', sc, {'pos': pos, 'got': sorted(res), 'extra': sorted(res - allowed)})
    extra_keys = set(got) - set(poslist) - ({'None' if p is None else p} if not init else set())
    if extra_keys:
        ctx.fail('no-other-part-of-speech-keys', sc, {'got': got})


SPEC_RULES = {
    'n': [("s", ""), ("ces", "x"), ("ses", "s"), ("ves", "f"), ("ives", "ife"), ("xes", "x"), ("xes", "xis"),
          ("zes", "z"), ("ches", "ch"), ("shes", "sh"), ("men", "man"), ("ies", "y")],
    'v': [("s", ""), ("ies", "y"), ("es", "e"), ("es", ""), ("ed", "e"), ("ed", ""), ("ing", "e"), ("ing", "")],
    'a': [("er", ""), ("est", ""), ("er", "e"), ("est", "e")],
    'r': [],
}
SPEC_RULES['s'] = SPEC_RULES['a']


def process(ctx, cases):
    import multiprocessing as mp
    with mp.get_context('fork').Pool(min(12, max(1, len(cases)))) as pool:
        impls = pool.map(_impl, cases, chunksize=1)
    reqs = []
    for lx, qs in cases:
        qq = [[q, p] for q in qs for p in POSES]
        reqs.append({'op': 'morphy', 'init': True, 'words': words_of(lx), 'queries': qq})
        reqs.append({'op': 'morphy', 'init': False, 'words': [], 'queries': qq})
    models = leanside.run_driver(reqs) if ctx.lean['driver_ok'] else None
    for k, ((lx, qs), im) in enumerate(zip(cases, impls)):
        i = 0
        for q in qs:
            for p in POSES:
                for mode, init in (('init', True), ('uninit', False)):
                    got = im[mode][i]
                    nontriv = any(v != [q] and v for v in got.values())
                    ctx.case((lx['id'], words_of(lx), q, p, init) if nontriv else None)
                    ctx.dist[f'{mode}:pos={p}'] += 1
                    if models is not None:
                        m = models[2 * k + (0 if init else 1)][i]
                        if m != got:
                            ctx.disagree({'lexicon_words': words_of(lx), 'lexicon': lx, 'query': q, 'pos': p, 'initialized': init}, got, m, 'morphy')
                    oracle(ctx, lx, q, p, init, got)
                i += 1
        for rec in im['wn']:
            ctx.case(None)
            sc = {'lexicon_words': words_of(lx), 'lexicon': lx, 'query': rec['q'], 'pos': rec['pos'], 'lemmatizer': rec['mode']}
            if sorted(rec['got']) != rec['union'] or len(set(rec['got'])) != len(rec['got']):
                ctx.fail('wordnet-with-lemmatizer-finds-the-union-without-duplicates(words)', sc, rec)
            if sorted(rec['got_senses']) != rec['union_senses'] or len(set(rec['got_senses'])) != len(rec['got_senses']):
                ctx.fail('wordnet-with-lemmatizer-finds-the-union-without-duplicates(senses)', sc, rec)
    return impls


def run(ctx):
    n = 12 if ctx.tier == 'quick' else 120
    cases = []
    for k in range(n):
        lx = gen_lexicon(ctx.rng, k)
        cases.append((lx, queries(ctx.rng, lx, 30 if ctx.tier == 'quick' else 60)))
    impls = process(ctx, cases)
    lx, qs = cases[-1]
    ctx.sample({'lexicon_words': words_of(lx), 'query': qs[0], 'results(init, per pos arg)': impls[-1]['init'][:7]})


def widen(ctx):
    cases = []
    for k in range(60):
        lx = gen_lexicon(ctx.rng, 1000 + k)
        cases.append((lx, queries(ctx.rng, lx, 50)))
    process(ctx, cases)


def replay(ctx, scenario):
    if scenario.get('lexicon'):
        process(ctx, [(scenario['lexicon'], [scenario['query']])])
        return
    ws = scenario['lexicon_words']
    lx = {'id': 'mr', 'version': '1', 'label': 'r', 'language': 'en', 'email': 'a@b.c', 'license': 'L', 'meta': None,
          'entries': [dict({'id': f'mr-w{i}', 'meta': None, 'lemma': {'writtenForm': fs[0], 'partOfSpeech': p},
                            'senses': [{'id': f'mr-w{i}-s0', 'synset': 'mr-ss0', 'meta': None}]},
                           **({'forms': [{'writtenForm': f} for f in fs[1:]]} if fs[1:] else {}))
                      for i, (p, fs) in enumerate(ws)],
          'synsets': [{'id': 'mr-ss0', 'ili': '', 'partOfSpeech': 'n', 'meta': None}]}
    process(ctx, [(lx, [scenario['query']])])


MATCHERS = {}
