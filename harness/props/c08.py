"""C08 — lexicon specifiers and language codes select exactly the documented lexicons."""
import fnmatch
import json
import shutil
import sqlite3

import docs
import leanside
import store

PID = 'C08'
RULE = ('one evaluation = one specifier string (ids, versions, "*", globs, singly and space-separated) x optional lang resolved by '
        'wn.Wordnet(...).lexicons(), wn.lexicons() and wn.remove() on a database with several ids, several versions per id added in '
        'varying order (with removals in between), prefix ids and versions containing . + -; plus (pattern, string) pairs against '
        'SQLite\'s own GLOB; non-trivial = the specifier is a bare id with >= 2 versions installed, a list, or contains a glob character; '
        'distinct = distinct (history, specifier, lang)')
ASSUMPTIONS = ['glob patterns in the oracle are limited to *, ? and simple [...] classes (fnmatch with ^ negation); the GLOB model itself is compared with SQLite on arbitrary patterns']

IDS = ['a', 'ab', 'abc', 'b', 'omw-en', 'omw-fr']
VERS = ['1', '2019', '2020', '1.4', '1.3+omw', '2.0-rc']


def mini(lexid, ver, lang):
    return {'id': lexid, 'version': ver, 'label': f'{lexid} {ver}', 'language': lang, 'email': 'a@b.c', 'license': 'L', 'meta': None}


def gen(rng):
    ops = []
    installed = []      # in order of addition
    universe = [(i, v) for i in IDS for v in VERS]
    for _ in range(rng.randint(3, 8)):
        if installed and rng.random() < 0.5:
            # looking at the lexicons between changes must not influence later selections
            ops.append({'k': 'lexicons', 'lexicon': rng.choice(['*', None, installed[-1][0], f'{installed[-1][0]}:{installed[-1][1]}']),
                        'lang': rng.choice([None, None, installed[-1][2]])})
        if installed and rng.random() < 0.3:
            spec = installed[-1] if rng.random() < 0.5 else rng.choice(installed)      # the newest: its rowid is reused
            ops.append({'k': 'remove', 'spec': f'{spec[0]}:{spec[1]}'})
            installed.remove(spec)
        else:
            i, v = rng.choice(universe)
            if (i, v) in [(a, b) for a, b, _ in installed]:
                continue
            lang = rng.choice(['en', 'en', 'fr', 'de', 'sr-Latn', 'sr-latn'])      # language codes are compared verbatim
            ops.append({'k': 'add', 'res': docs.resource([mini(i, v, lang)], '1.0')})
            installed.append((i, v, lang))
    ids = sorted({i for i, _, _ in installed}) or ['a']
    vers = sorted({v for _, v, _ in installed}) or ['1']
    toks = ['*'] + ids + [f'{i}:{v}' for i in ids for v in vers][:10] + [f'{i}:*' for i in ids] + [f'*:{v}' for v in vers] + \
        ['a*', 'a?', 'a?:*', 'omw-*:1.4', 'omw-*', '*:20*', '[ab]:*', 'a[b-c]*:*', '*:1.?', 'zz', 'zz:1', '*:9', '?', 'ab:2019', 'A', 'a:'] + \
        [f'{i}:20??' for i in ids[:3]] + [f'{ids[0]}:20[12][09]', f'{ids[0]}:?', f'{ids[0]}:1.?', '[ab]:1', 'a?:2019', '?:20??', 'omw-??:1.[34]']
    queries = []
    for _ in range(14):
        n = rng.choice([1, 1, 1, 2, 3])
        # a list is separated by any white space (str.split()): blanks, tabs, line ends, also leading / trailing
        sep = rng.choice([' ', ' ', ' ', '\t', '\n', '  ', ' \n '])
        spec = sep.join(rng.sample(toks, n)) + rng.choice(['', '', '', '\n', ' '])
        lang = rng.choice([None, None, None, None, 'en', 'fr', 'xx', 'EN', 'Fr', 'sr-Latn', 'sr-latn', 'SR-LATN'])
        queries.append((spec, lang))
    queries += [('*', None), (None, None), (None, 'en'), ('', None)]
    for spec, lang in queries:
        ops.append({'k': 'lexicons', 'lexicon': spec, 'lang': lang})
    # removal selects the same way
    if installed:
        spec = rng.choice([ids[0], ids[0] + ':*', '*:' + vers[0], 'zz'])
        ops.append({'k': 'remove', 'spec': spec, '_probe': True})
        ops.append({'k': 'lexicons', 'lexicon': '*', 'lang': None})
    return {'ops': ops}


def _impl(sc):
    import wnenv
    wn = wnenv.wn
    try:
        wnenv.fresh_db()
        d = wnenv.workdir()
        outs = []
        for k, op in enumerate(sc['ops']):
            if op['k'] == 'add':
                f = d / f'r{k}.xml'
                f.write_text(docs.to_xml(op['res']), encoding='utf-8')
                wn.add(f, progress_handler=None)
                outs.append({'ok': True})
            elif op['k'] == 'remove':
                try:
                    wn.remove(op['spec'], progress_handler=None)
                    outs.append({'ok': True})
                except wn.Error:
                    outs.append({'ok': False})
            else:
                import warnings
                with warnings.catch_warnings():
                    warnings.simplefilter('ignore')
                    try:
                        w = wn.Wordnet(lexicon=op['lexicon'], lang=op['lang'])
                        got = w.lexicons()
                        r = [f'{l.id}:{l.version}' for l in got]
                        # the answer is the caller's own list: whatever the caller does to it, the selection stays
                        exp_ = w.expanded_lexicons()
                        got.extend(exp_)
                        got.reverse()
                        if got:
                            got.pop()
                        exp_.clear()
                        again = [f'{l.id}:{l.version}' for l in w.lexicons()]
                    except wn.Error:
                        r = again = 'error'
                    r2 = [f'{l.id}:{l.version}' for l in wn.lexicons(lexicon=op['lexicon'], lang=op['lang'])]
                outs.append({'wordnet': r, 'lexicons': r2, '_again': again})
        shutil.rmtree(d, ignore_errors=True)
        return outs
    except Exception as e:
        import traceback
        return {'exception': repr(e), 'tb': traceback.format_exc()[-1200:]}
    finally:
        wnenv.cleanup()


def tok_match(tok, spec):
    pat = tok if ':' in tok else tok + ':*'
    pat = pat.replace('[^', '[!')
    return fnmatch.fnmatchcase(spec, pat)


def expected(installed, spec, lang):
    """the documented table (docs/guides/lexicons.rst): set of selected lexicons"""
    sel = []
    for tok in (spec or '*').split():
        cands = [(i, v, l) for (i, v, l) in installed if tok_match(tok, f'{i}:{v}') and (lang is None or l == lang)]
        if ':' not in tok and '*' not in tok:
            cands = cands[-1:]          # bare id: the most recently added one
        sel += cands
    return sel


def judge(ctx, sc, im, mo):
    installed = []
    for k, (op, o) in enumerate(zip(sc['ops'], im)):
        if op['k'] == 'add':
            lx = op['res']['lexicons'][0]
            if (lx['id'], lx['version']) not in [(a, b) for a, b, _ in installed]:
                installed.append((lx['id'], lx['version'], lx['language']))
        elif op['k'] == 'remove':
            exp = expected(installed, op['spec'], None)
            if (o['ok'] is False) != (not exp):
                ctx.fail('remove(specifier)-errors-iff-nothing-matches', sc, {'spec': op['spec'], 'installed': installed, 'got': o})
            installed = [x for x in installed if x not in exp]
        else:
            exp = expected(installed, op['lexicon'], op['lang'])
            exp_specs = sorted({f'{i}:{v}' for i, v, _ in exp})
            specifies = bool(op['lexicon'] and op['lexicon'] != '*') or op['lang'] is not None
            where = {'lexicon': op['lexicon'], 'lang': op['lang'], 'installed_in_add_order': [f'{i}:{v}[{l}]' for i, v, l in installed]}
            got = o['wordnet']
            if got == 'error':
                if exp_specs or not specifies:
                    ctx.fail('Wordnet-errors-only-when-nothing-matches', sc, dict(where, expected=exp_specs))
            else:
                if not exp_specs and specifies:
                    ctx.fail('Wordnet-errors-when-the-request-matches-no-lexicon', sc, dict(where, got=got))
                elif sorted(set(got)) != exp_specs:
                    ctx.fail('selection=documented-specifier-table', sc, dict(where, got=sorted(set(got)), expected=exp_specs))
            if sorted(set(o['lexicons'])) != exp_specs:
                ctx.fail('wn.lexicons()=documented-selection-or-empty-list', sc, dict(where, got=o['lexicons'], expected=exp_specs))
            if o.get('_again', got) != got:
                ctx.fail('the-selection-of-a-Wordnet-does-not-change-when-the-caller-modifies-a-returned-list', sc,
                         dict(where, first=got, after=o.get('_again')))
        if mo is not None:
            m = mo[k]
            if op['k'] == 'lexicons':
                if m != o['wordnet']:
                    ctx.disagree(sc, o['wordnet'], m, f"lexicons({op['lexicon']!r}, {op['lang']!r})")
            elif op['k'] == 'remove' and m.get('ok') != o.get('ok'):
                ctx.disagree(sc, o, m, f"remove({op['spec']!r})")


def glob_cases(rng, n):
    alpha = ['a', 'b', 'c', ':', '1', '2', '.', '+', '-', '*', '?', '[', ']', '^', 'é']
    cases = []
    for _ in range(n):
        p = ''.join(rng.choice(alpha) for _ in range(rng.randint(0, 7)))
        s = ''.join(rng.choice(alpha[:9] + ['é', ']', '^']) for _ in range(rng.randint(0, 7)))
        cases.append([p, s])
    return cases


def process(ctx, scs, nglob):
    import multiprocessing as mp
    with mp.get_context('fork').Pool(min(12, max(1, len(scs)))) as pool:
        impls = pool.map(_impl, scs, chunksize=1)
    models = leanside.run_driver([store.model_request(s) for s in scs]) if ctx.lean['driver_ok'] else [None] * len(scs)
    for sc, im, mo in zip(scs, impls, models):
        if isinstance(im, dict):
            ctx.fail('scenario-runs', sc, im)
            continue
        for op in sc['ops']:
            if op['k'] == 'lexicons':
                spec = op['lexicon'] or ''
                nt = (' ' in spec.strip()) or any(c in spec for c in '*?[') or (spec and ':' not in spec)
                ctx.case((sc['ops'].index(op), spec, op['lang'], [o for o in sc['ops'] if o['k'] != 'lexicons']) if nt else None)
                ctx.dist['lang-given' if op['lang'] else 'no-lang'] += 1
        judge(ctx, sc, im, mo)
    # the GLOB model against SQLite's own operator
    cases = glob_cases(ctx.rng, nglob)
    conn = sqlite3.connect(':memory:')
    truth = [bool(conn.execute('SELECT ? GLOB ?', (s, p)).fetchone()[0]) for p, s in cases]
    if ctx.lean['driver_ok']:
        got = leanside.run_driver([{'op': 'glob', 'cases': cases}])[0]
        ctx.case(None, n=len(cases))
        ctx.dist['glob-pairs'] += len(cases)
        for c, t, g in zip(cases, truth, got):
            if t != g:
                ctx.disagree({'pattern': c[0], 'string': c[1]}, t, g, 'GLOB')
                break


def run(ctx):
    scs = [gen(ctx.rng) for _ in range(30 if ctx.tier == 'quick' else 500)]
    process(ctx, scs, 4000 if ctx.tier == 'quick' else 60000)
    sc = scs[-1]
    ctx.sample({'history': [(op['k'], f"{op['res']['lexicons'][0]['id']}:{op['res']['lexicons'][0]['version']}" if op['k'] == 'add' else op.get('spec'))
                            for op in sc['ops'] if op['k'] != 'lexicons'],
                'queries': [(op['lexicon'], op['lang']) for op in sc['ops'] if op['k'] == 'lexicons'][:6]})


def widen(ctx):
    process(ctx, [gen(ctx.rng) for _ in range(200)], 20000)


def replay(ctx, scenario):
    if 'ops' in scenario:
        process(ctx, [scenario], 10)


MATCHERS = {}
