"""C03 — exporting a database and re-importing it preserves the lexicons."""
import copy
import json
import shutil

import docs
import leanside
import store
from props import c01

PID = 'C03'
RULE = ('one evaluation = one (installed plain lexicons, export version) pair: wn.export of one or several lexicons in LMF 1.0-1.3, the exported '
        'file loaded with wn.lmf.load and compared with the Lean export model and, item by item, with the documents that were added; the exported '
        'file is added to an empty database and the observations are compared; exports with clashing identifiers must be refused; '
        'non-trivial = the lexicon has frames, proposed ILIs, relation metadata or >= 2 lexicons are exported; distinct = distinct (documents, version)')
ASSUMPTIONS = ['resource equivalence: explicit defaults, empty optionals and the split of identical relations are not distinguished; items a target '
               'version cannot express (pronunciations, form ids, members, lexfile, logo, requires in 1.0) are projected away']
VERSIONS = ['1.0', '1.1', '1.2', '1.3']


def gen(rng):
    g = docs.Gen(rng, hostile=0.1, rich=0.6)
    vs = rng.choice(['1.0', '1.1', '1.3'])
    a = g.lexicon('a', '1', vs, requires=[{'id': 'q', 'version': '9', 'url': 'http://q'}] if vs != '1.0' and rng.random() < 0.4 else None)
    a['language'] = rng.choice(['en', 'zh-Hant', 'pt-BR', 'sr-Latn', 'de'])      # language tags are kept verbatim
    lexs = [a]
    clash = False
    if rng.random() < 0.4:
        b = g.lexicon('b', '1', vs)
        if rng.random() < 0.3 and b.get('synsets') and a.get('synsets'):
            b['synsets'][0]['id'] = a['synsets'][0]['id']     # clashing identifier across the exported lexicons
            for e in b.get('entries', []):
                for s in e.get('senses', []):
                    pass
            clash = True
            # keep b self-consistent: references to the renamed synset
            old = 'b-ss0'
            for e in b.get('entries', []):
                for s in e.get('senses', []):
                    if s['synset'] == old:
                        s['synset'] = a['synsets'][0]['id']
                    for r in s.get('relations', []):
                        if r['target'] == old:
                            r['target'] = a['synsets'][0]['id']
            for y in b['synsets']:
                for r in y.get('relations', []):
                    if r['target'] == old:
                        r['target'] = a['synsets'][0]['id']
        lexs.append(b)
        if vs == '1.0' and rng.random() < 0.7:
            # both exported lexicons have frames without id (the only kind a 1.0 document can carry)
            for lx in (a, b):
                if not any(e.get('frames') for e in lx.get('entries', [])):
                    for e in lx.get('entries', []):
                        if e.get('senses'):
                            e['frames'] = [{'subcategorizationFrame': 'Somebody ----s something'}]
                            break
    ops = [{'k': 'add', 'res': docs.resource(lexs, vs)}, {'k': 'obs'}]
    if vs != '1.0' and not clash and rng.random() < 0.35:
        # an extension of a:1 is installed but not exported: what it hangs on a:1's senses and synsets (examples,
        # relations, counts) is its own, not part of the exported a:1
        ax_ = g.extension('ax', a, '1', vs, with_forms=False)
        for e_ in ax_.get('entries', []):
            # (tags / pronunciations an extension hangs on a base lemma are reported for the base: finding F12,
            # listed under C01 and C05; not looked for again here)
            if e_.get('external') and e_.get('lemma'):
                e_['lemma'].pop('tags', None)
                e_['lemma'].pop('pronunciations', None)
            for f_ in e_.get('forms', []):
                if f_.get('external'):
                    f_.pop('tags', None)
                    f_.pop('pronunciations', None)
        ops.append({'k': 'add', 'res': docs.resource([ax_], vs)})
    provider_gone = False
    if a.get('requires') and rng.random() < 0.6:
        # the lexicon a:1 requires is installed (before or after a:1) and removed again before the export:
        # the <Requires> of a:1 is part of a:1, not of the provider
        q = g.lexicon('q', '9', vs, n_syn=1, n_ent=1)
        qop = {'k': 'add', 'res': docs.resource([q], vs)}
        q_first = rng.random() < 0.5
        if q_first:
            ops.insert(0, qop)
        else:
            ops.append(qop)
        if not q_first or rng.random() < 0.5:
            ops.append({'k': 'remove', 'spec': 'q:9'})
            ops.append({'k': 'obs'})
            provider_gone = True
        else:
            # the provider stays and is exported after its dependant: re-importing the file links them again
            lexs = lexs + [q]
    if rng.random() < 0.35:
        # another version of a:1 is installed side by side (same entity ids) but not exported
        a2 = copy.deepcopy(a)
        a2['version'] = '2'
        a2.pop('requires', None)
        # same sense ids, other frames
        for f in a2.get('frames', []) or []:
            f['subcategorizationFrame'] = 'v2 ' + f['subcategorizationFrame']
            if f.get('id'):
                f['id'] = f['id'] + '-v2'
        for e in a2.get('entries', []):
            for s_ in e.get('senses', []):
                if s_.get('subcat'):
                    s_['subcat'] = [x + '-v2' for x in s_['subcat']]
            for f in e.get('frames', []) or []:
                f['subcategorizationFrame'] = 'v2 ' + f['subcategorizationFrame']
            if vs == '1.0' and e.get('senses') and not e.get('frames'):
                e['frames'] = [{'subcategorizationFrame': 'v2 only ' + e['id']}]
        ops.append({'k': 'add', 'res': docs.resource([a2], vs)})
    if not clash and rng.random() < 0.4:
        # a lexicon installed after the database has been looked at, bringing lookup values (lexfile names,
        # relation types) the database has not seen yet; it is exported with the others
        z = g.lexicon('z', '1', vs, n_syn=rng.randint(2, 3), n_ent=2)
        for i, y in enumerate(z.get('synsets', [])):
            if vs != '1.0':
                y['lexfile'] = f'late.lexfile{i % 2}'
            y.setdefault('relations', []).append({'target': z['synsets'][0]['id'], 'relType': 'late_reltype', 'meta': None})
        ops.append({'k': 'add', 'res': docs.resource([z], vs)})
        ops.append({'k': 'obs'})
        lexs = lexs + [z]
    spec = ' '.join(f"{lx['id']}:{lx['version']}" for lx in lexs)
    for v in VERSIONS:
        ops.append({'k': 'export', 'lexicons': spec, 'v': v})
    if len(lexs) > 1:
        ops.append({'k': 'export', 'lexicons': 'a:1', 'v': rng.choice(VERSIONS)})
    return {'ops': ops, 'source_version': vs, 'clash': clash}


def _impl(sc):
    import warnings
    warnings.simplefilter('ignore')
    import wnenv
    wn = wnenv.wn
    from wn import lmf
    outs = []
    try:
        wnenv.fresh_db()
        d = wnenv.workdir()
        exports = []
        for k, op in enumerate(sc['ops']):
            if op['k'] == 'add':
                f = d / f'r{k}.xml'
                f.write_text(docs.to_xml(op['res']), encoding='utf-8')
                wn.add(f, progress_handler=None)
                outs.append({'ok': True})
            elif op['k'] == 'remove':
                wn.remove(op['spec'], progress_handler=None)
                outs.append({'ok': True})
            elif op['k'] == 'obs':
                outs.append(store.obs_all(wn))
            elif op['k'] == 'export':
                f = d / f'export{k}.xml'
                rec = {}
                try:
                    wn.export(wn.lexicons(lexicon=op['lexicons']), f, version=op['v'])
                    rec['export'] = 'ok'
                    rec['loaded'] = lmf.load(f, progress_handler=None)
                    exports.append((k, f))
                except wn.Error as e:
                    rec['export'] = 'error'
                    rec['exc'] = str(e)[:100]
                except Exception as e:
                    rec['export'] = 'exception'
                    rec['exc'] = type(e).__name__ + ': ' + str(e)[:150]
                outs.append(rec)
        # re-import every exported file into an empty database
        for k, f in exports:
            wnenv.fresh_db()
            try:
                wn.add(f, progress_handler=None)
                outs[k]['reimport'] = store.obs_all(wn)
            except Exception as e:
                outs[k]['reimport_error'] = type(e).__name__ + ': ' + str(e)[:150]
        shutil.rmtree(d, ignore_errors=True)
        return outs
    except Exception as e:
        import traceback
        return {'exception': repr(e), 'tb': traceback.format_exc()[-1500:]}
    finally:
        wnenv.cleanup()


def _m(m):
    return {k: (v if isinstance(v, str) else json.dumps(v)) for k, v in (m or {}).items() if v != ''}


def _ms(items):
    return sorted(json.dumps(i, sort_keys=True, ensure_ascii=False) for i in items)


def frame_links(lx):
    """set of (sense id, frame string)"""
    out = set()
    fmap = {}
    for f in lx.get('frames', []):
        if f.get('id'):
            fmap[f['id']] = f['subcategorizationFrame']
        for sid in f.get('senses', []) or []:
            out.add((sid, f['subcategorizationFrame']))
    for e in lx.get('entries', []):
        alls = [s['id'] for s in e.get('senses', [])]
        for s in e.get('senses', []):
            for sb in s.get('subcat', []) or []:
                if sb in fmap:
                    out.add((s['id'], fmap[sb]))
        for f in e.get('frames', []) or []:
            for sid in (f.get('senses') or alls):
                out.add((sid, f['subcategorizationFrame']))
    return out


def project(lx, v):
    """the content of a lexicon document that LMF version `v` can express, in canonical form"""
    v11 = v != '1.0'
    P = {'attrs': {k: lx.get(k) or None for k in ('id', 'label', 'language', 'email', 'license', 'version', 'url', 'citation')},
         'meta': _m(lx.get('meta'))}
    if v11:
        P['attrs']['logo'] = lx.get('logo') or None
        P['requires'] = _ms([[r['id'], r['version'], r.get('url') or None] for r in lx.get('requires', []) or []])
    ents = {}
    for e in lx.get('entries', []) or []:
        lem = e['lemma']

        def formlike(f):
            d = {'form': f['writtenForm'], 'script': f.get('script') or None,
                 'tags': _ms([[t['text'], t['category']] for t in f.get('tags', []) or []])}
            if v11:
                d['prons'] = _ms([[p['text'], p.get('variety') or None, p.get('notation') or None, bool(p.get('phonemic', True)), p.get('audio') or None]
                                  for p in f.get('pronunciations', []) or []])
            return d
        E = {'pos': lem['partOfSpeech'], 'lemma': formlike(lem), 'meta': _m(e.get('meta')), 'forms': [], 'senses': []}
        for f in e.get('forms', []) or []:
            fd = formlike(f)
            if v11:
                fd['id'] = f.get('id') or None
            E['forms'].append(fd)
        for s in e.get('senses', []) or []:
            rels = {json.dumps([r['target'], r['relType'], _m(r.get('meta'))], sort_keys=True) for r in s.get('relations', []) or []}
            E['senses'].append({'id': s['id'], 'synset': s['synset'], 'meta': _m(s.get('meta')),
                                'lexicalized': bool(s.get('lexicalized', True)), 'adjposition': s.get('adjposition') or None,
                                'examples': _ms([[x['text'], x.get('language') or None, _m(x.get('meta'))] for x in s.get('examples', []) or []]),
                                'counts': _ms([[c['value'], _m(c.get('meta'))] for c in s.get('counts', []) or []]),
                                'relations': sorted(rels)})
        ents[e['id']] = E
    P['entries'] = ents
    syns = {}
    for y in lx.get('synsets', []) or []:
        rels = {json.dumps([r['target'], r['relType'], _m(r.get('meta'))], sort_keys=True) for r in y.get('relations', []) or []}
        Y = {'pos': y.get('partOfSpeech'), 'ili': y.get('ili') or '', 'meta': _m(y.get('meta')),
             'lexicalized': bool(y.get('lexicalized', True)),
             'definitions': _ms([[d['text'], d.get('language') or None, d.get('sourceSense') or None, _m(d.get('meta'))] for d in y.get('definitions', []) or []]),
             'examples': _ms([[x['text'], x.get('language') or None, _m(x.get('meta'))] for x in y.get('examples', []) or []]),
             'relations': sorted(rels)}
        if y.get('ili') == 'in':
            d = y.get('ili_definition')
            Y['ili_definition'] = [d['text'], _m(d.get('meta'))] if d and d.get('text') else None
        if v11:
            Y['lexfile'] = y.get('lexfile') or None
        syns[y['id']] = Y
    P['synsets'] = syns
    P['frame_links'] = sorted(frame_links(lx))
    return P


def members_ok(orig, exp):
    """members made explicit: the declared members come first, in the declared order"""
    bad = []
    by_syn = {}
    for e in orig.get('entries', []):
        for s in e.get('senses', []):
            by_syn.setdefault(s['synset'], []).append(s['id'])
    em = {y['id']: y.get('members', []) or [] for y in exp.get('synsets', [])}
    for y in orig.get('synsets', []):
        decl = [m for m in (y.get('members') or []) if m in by_syn.get(y['id'], [])]
        got = em.get(y['id'], [])
        if sorted(got) != sorted(by_syn.get(y['id'], [])):
            bad.append([y['id'], 'members', got, by_syn.get(y['id'], [])])
        elif got[:len(decl)] != decl and len(set(decl)) == len(decl):
            bad.append([y['id'], 'order', got, decl])
    return bad


def m_f2(clause, scenario, detail):
    """F2-residual: frames that have no id (WN-LMF 1.0 entry-level frames) cannot be linked to senses
    in an export of version >= 1.1 (subcat needs ids): links are lost / the file cannot be re-added"""
    if clause not in ('sense-frame-links-preserved', 'exported-file-can-be-added-to-an-empty-database',
                      'reimported-database-is-observationally-identical'):
        return False
    if detail.get('export_version') == '1.0':
        return False
    if not detail.get('source_has_frames_without_id'):
        return False
    if clause == 'reimported-database-is-observationally-identical':
        return '.frames' in detail.get('path', '')
    if clause == 'exported-file-can-be-added-to-an-empty-database':
        return 'KeyError' in detail.get('error', '')
    return True


MATCHERS = {'f2_frames_without_id_in_export_1_1': m_f2}


def strip_obs(obs, specs, mask_v10):
    o = [x for x in store.canon_obs(obs) if x['spec'] in specs]
    o = json.loads(json.dumps(o))
    for x in o:
        for y in x['scope']['synsets']:
            if isinstance(y['ili'], dict) and y['ili'].get('id') is not None:
                y['ili'] = {'id': y['ili']['id']}
        x['scope']['ilis'] = sorted(json.dumps(i[:1] if i[0] else i) for i in x['scope']['ilis'])
        x['lexicon']['requires'] = [] if mask_v10 else x['lexicon']['requires']
        # a declared dependency is linked in the re-imported database only if its provider was exported along
        x['lexicon']['requires'] = [[r_[0], r_[1] if r_[1] in specs else None] for r_ in x['lexicon']['requires']]
        # extensions that are installed but not exported are not part of the exported lexicons
        x['lexicon']['extensions'] = [e for e in x['lexicon'].get('extensions', []) if e in specs]
        x['lexicon']['all_extensions'] = [e for e in x['lexicon'].get('all_extensions', []) if e in specs]
    return o


def judge(ctx, sc, im, mo):
    if isinstance(im, dict):
        ctx.fail('scenario-runs', sc, im)
        return
    docs_ = {f"{lx['id']}:{lx['version']}": lx for op in sc['ops'] if op['k'] == 'add' for lx in op['res']['lexicons']}
    vs = sc['source_version']
    base_obs = next((o for o in im if isinstance(o, list)), im[1])       # the first observation of the history
    for k, op in enumerate(sc['ops']):
        if op['k'] != 'export':
            continue
        rec = im[k]
        v = op['v']
        specs = op['lexicons'].split()
        small = {'ops': [o for o in sc['ops'][:k] if o['k'] in ('add', 'obs')] + [op], 'source_version': vs, 'clash': sc['clash']}
        base_obs = ([im[j] for j in range(k) if sc['ops'][j]['k'] == 'obs'] or [im[1]])[-1]
        ctx.dist['export=' + v] += 1
        ctx.dist['source=' + vs] += 1
        several = len(specs) > 1
        clash = sc['clash'] and several
        feats = any(lx.get('frames') or any(e.get('frames') for e in lx.get('entries', [])) or any(y.get('ili') == 'in' for y in lx.get('synsets', []))
                    for lx in docs_.values())
        ctx.case((json.dumps(sc['ops'][0], sort_keys=True, default=str)[:3000], v, op['lexicons']) if (feats or several) else None)
        if clash:
            if rec['export'] != 'error':
                ctx.fail('export-with-clashing-identifiers-is-refused', small, {'got': rec['export']})
            if mo is not None and mo[k] != 'error':
                ctx.disagree(small, rec['export'], mo[k] if isinstance(mo[k], str) else 'exported', 'precheck')
            continue
        if rec['export'] != 'ok':
            ctx.fail('export-of-valid-lexicons-succeeds', small, {'got': rec['export'], 'exc': rec.get('exc')})
            continue
        if mo is not None:
            m = mo[k]
            if isinstance(m, str) or 'reload_error' in m:
                ctx.disagree(small, 'exported', m, 'export')
            elif not m.get('equal'):
                d = c01.diff(m.get('impl'), m.get('model'))
                ctx.disagree(small, d[1] if d else None, d[2] if d else None, 'export ' + v + ' at ' + (d[0] if d else '?'))
        loaded = {f"{lx['id']}:{lx['version']}": lx for lx in rec['loaded']['lexicons']}
        if sorted(loaded) != sorted(specs):
            ctx.fail('exported-file-holds-exactly-the-requested-lexicons', small, {'got': sorted(loaded)})
            continue
        no_id_frames = any(any(not f.get('id') for f in lx.get('frames', []) or []) or any(e.get('frames') for e in lx.get('entries', []))
                           for lx in docs_.values())
        extra = {'export_version': v, 'source_has_frames_without_id': no_id_frames}
        for spec in specs:
            want = project(docs_[spec], v)
            got = project(loaded[spec], v)
            for part in ('attrs', 'meta', 'requires'):
                if want.get(part) != got.get(part):
                    ctx.fail(f'lexicon-{part}-preserved', small, dict(extra, lexicon=spec, original=want.get(part), exported=got.get(part)))
            for kind in ('entries', 'synsets'):
                if sorted(want[kind]) != sorted(got[kind]):
                    ctx.fail(f'{kind}-preserved(ids)', small, dict(extra, lexicon=spec, missing=sorted(set(want[kind]) - set(got[kind])),
                                                                  spurious=sorted(set(got[kind]) - set(want[kind]))))
                    continue
                for i in want[kind]:
                    d = c01.diff(want[kind][i], got[kind][i])
                    if d:
                        ctx.fail(f'{kind}-preserved:{d[0].split("[")[0].strip(".")}', small,
                                 dict(extra, lexicon=spec, id=i, path=d[0], original=d[1], exported=d[2]))
            if want['frame_links'] != got['frame_links']:
                ctx.fail('sense-frame-links-preserved', small, dict(extra, lexicon=spec, original=want['frame_links'], exported=got['frame_links']))
            if v != '1.0':
                bad = members_ok(docs_[spec], loaded[spec])
                if bad:
                    ctx.fail('members-made-explicit-in-declared-order', small, dict(extra, lexicon=spec, bad=bad[:3]))
        # re-import
        if 'reimport_error' in rec:
            ctx.fail('exported-file-can-be-added-to-an-empty-database', small, dict(extra, error=rec['reimport_error']))
        elif 'reimport' in rec and (v != '1.0' or vs == '1.0'):
            a = strip_obs(base_obs, specs, False)
            b = strip_obs(rec['reimport'], specs, False)
            d = c01.diff(a, b)
            if d:
                ctx.fail('reimported-database-is-observationally-identical', small, dict(extra, path=d[0], original=d[1], reimported=d[2]))


def process(ctx, scs):
    import multiprocessing as mp
    with mp.get_context('fork').Pool(min(12, max(1, len(scs)))) as pool:
        impls = pool.map(_impl, scs, chunksize=1)
    models = [None] * len(scs)
    if ctx.lean['driver_ok']:
        reqs = []
        for sc, im in zip(scs, impls):
            sc2 = {'ops': []}
            for k, op in enumerate(sc['ops']):
                if op['k'] == 'export' and isinstance(im, list) and im[k].get('export') == 'ok':
                    sc2['ops'].append(dict(op, expect=im[k]['loaded']))
                else:
                    sc2['ops'].append(op)
            reqs.append(store.model_request(sc2))
        models = leanside.run_driver(reqs)
    for sc, im, mo in zip(scs, impls, models):
        judge(ctx, sc, im, mo)


def load_corpus():
    d = leanside.ROOT / 'corpus' / PID
    out = []
    for f in (sorted(x for x in d.glob('*.json') if not x.name.startswith(('seeded-', 'regress-'))) if d.is_dir() else []):
        s_ = json.loads(f.read_text())['scenario']
        out.append({'ops': [s_['ops'][0], {'k': 'obs'}, s_['ops'][1]], 'source_version': s_['source_version'], 'clash': False})
    return out


def run(ctx):
    scs = load_corpus() + [gen(ctx.rng) for _ in range(24 if ctx.tier == 'quick' else 400)]
    process(ctx, scs)
    ctx.sample({'source_version': scs[-1]['source_version'], 'exports': [[op['lexicons'], op['v']] for op in scs[-1]['ops'] if op['k'] == 'export'],
                'clashing_ids': scs[-1]['clash']})


def widen(ctx):
    process(ctx, [gen(ctx.rng) for _ in range(150)])


def replay(ctx, scenario):
    sc = {'ops': [scenario['ops'][0], {'k': 'obs'}, scenario['ops'][1]], 'source_version': scenario['source_version'], 'clash': False}
    process(ctx, [sc])
