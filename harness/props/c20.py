"""C20 — invalid WN-LMF is rejected as a whole; scans agree with full loads."""
import json
import re
import shutil

import docs
import leanside
import store
from props import c02, c06

PID = 'C20'
RULE = ('one evaluation = one document: a valid generated WN-LMF file (varying quoting style, attribute order, escaped characters) or one '
        'single-fault mutation of it (required attribute removed, element renamed or moved to another version, single-valued child duplicated, '
        'tag unbalanced, header line altered); load / is_lmf / scan_lexicons / add are run on the real library, compared with the Lean models of '
        'the header check, the element tables and the pre-scan, and judged: invalid input raises and leaves the database unchanged, is_lmf is true '
        'exactly for accepted headers, the scan reports the ids, versions, labels and extension bases of the full load in order; '
        'non-trivial = a mutated document or a document with single-quoted / reordered attributes; distinct = distinct document text')
ASSUMPTIONS = ['expat decides well-formedness; the tree model is consulted only for documents ElementTree can parse']

HEADER_FAULTS = ['no-xmldecl', 'leading-space', 'wrong-encoding', 'no-doctype', 'unknown-dtd-version', 'doctype-on-line-3', 'single-quoted-header',
                 'trailing-spaces', 'crlf']


def base_doc(rng):
    g = docs.Gen(rng, hostile=0.15, rich=0.5)
    v = rng.choice(['1.0', '1.1', '1.3'])
    a = g.lexicon('a', '1', v, n_syn=rng.randint(1, 3), n_ent=rng.randint(1, 3))
    a['label'] = rng.choice(['Plain label', "Tom & Jerry's", 'say "hi"', 'a>b', 'x<y', 'tab\tin', 'Ünï', 'it\'s "both"'])
    lexs = [a]
    if v != '1.0' and rng.random() < 0.5:
        lexs.append(g.extension('ax', a, '2.0', v))
        lexs[0] = a
    if rng.random() < 0.4:
        lexs.append(g.lexicon('b', '1.1+x', v))
        if rng.random() < 0.5:
            # a second version of the same lexicon id in the same file (its entities carry their own ids): lexicons are
            # identified by id *and* version everywhere in the library
            b2 = g.lexicon('b2', '2', v)
            b2['id'] = 'b'
            lexs.append(b2)
    return docs.resource(lexs, v), v


def restyle(text, rng):
    """valid re-rendering of start tags: single quotes where possible, attribute order changed"""
    def fix(m):
        name, body = m.group(1), m.group(2)
        if "'" in body:
            return m.group(0)
        attrs = re.findall(r'(\S+?)="([^"]*)"', body)
        if not attrs or len(attrs) != body.count('="') or len(attrs) != body.count('"') // 2:
            return m.group(0)
        if rng.random() < 0.5:
            rng.shuffle(attrs)
        parts = []
        for k, v in attrs:
            if "'" not in v and rng.random() < 0.5:
                parts.append(f"{k}='{v}'")
            else:
                parts.append(f'{k}="{v}"')
        sep = rng.choice([' ', '\n     ', '  ', '\t'])
        return f'<{name}' + sep + sep.join(parts) + '>'
    out = re.sub(r'<(Lexicon|LexiconExtension|Extends|Requires)\s([^<>]*?)(?<!/)>', fix, text)
    if rng.random() < 0.6:
        # comments are legal anywhere between elements: right after the start tag of a lexicon (i.e. before
        # <Extends> / <Requires>), and before the first entry
        note = rng.choice(['<!-- generated -->', '<!-- extends: see below -->', '<!--x-->\n  <!-- y -->'])
        out = re.sub(r'(<Lexicon(?:Extension)?\s[^<>]*?(?<!/)>)', lambda m: m.group(1) + '\n    ' + note, out)
    return out


def mutate(text, v, rng):
    """one single-fault mutation; returns (kind, new text, expected)"""
    lines = text.split('\n')
    kind = rng.choice(['remove-attr', 'rename-elem', 'other-version-elem', 'dup-single', 'unbalanced', 'truncated', 'header', 'lexicon-key'] + (['header'] * 1))
    if kind == 'header':
        f = rng.choice(HEADER_FAULTS)
        h1, h2 = lines[0], lines[1]
        valid = False
        if f == 'no-xmldecl':
            lines = lines[1:]
        elif f == 'leading-space':
            lines[0] = ' ' + h1
        elif f == 'wrong-encoding':
            lines[0] = h1.replace('UTF-8', 'utf-8')
        elif f == 'no-doctype':
            lines = [h1] + lines[2:]
        elif f == 'unknown-dtd-version':
            lines[1] = h2.replace(f'WN-LMF-{v}', 'WN-LMF-2.7')
        elif f == 'doctype-on-line-3':
            lines = [h1, '', h2] + lines[2:]
        elif f == 'single-quoted-header':
            lines[0] = h1.replace('"', "'")
            lines[1] = h2.replace('"', "'")
            valid = True
        elif f == 'trailing-spaces':
            lines[0] = h1 + '   '
            lines[1] = h2 + ' \t'
            valid = True
        elif f == 'crlf':
            lines[0] = h1 + '\r'
            lines[1] = h2 + '\r'
            valid = True
        return 'header:' + f, '\n'.join(lines), 'valid' if valid else 'invalid-header'
    body = '\n'.join(lines)
    if kind == 'lexicon-key':
        # the identifying attributes of a lexicon: the pre-scan and the full load must both reject the file
        ms = list(re.finditer(r'(<Lexicon(?:Extension)?\b[^>]*?)\s(id|version)="[^"]*"', body))
        if ms:
            m = rng.choice(ms)
            return f'remove-attr:lexicon@{m.group(2)}', body[:m.start()] + m.group(1) + body[m.end():], 'invalid'
        return 'none', body, 'valid'
    if kind == 'remove-attr':
        cands = [(r'(<Lexicon(?:Extension)?\b[^>]*?)\s(id|version|label|language|email|license)="[^"]*"', 'lexicon'),
                 (r'(<LexicalEntry\b[^>]*?)\s(id)="[^"]*"', 'entry'), (r'(<Lemma\b[^>]*?)\s(writtenForm|partOfSpeech)="[^"]*"', 'lemma'),
                 (r'(<Sense\b[^>]*?)\s(id|synset)="[^"]*"', 'sense'), (r'(<Synset\b[^>]*?)\s(id|ili)="[^"]*"', 'synset'),
                 (r'(<S(?:ense|ynset)Relation\b[^>]*?)\s(target|relType)="[^"]*"', 'relation'), (r'(<Tag\b[^>]*?)\s(category)="[^"]*"', 'tag'),
                 (r'(<Form\b[^>]*?)\s(writtenForm)="[^"]*"', 'form'), (r'(<SyntacticBehaviour\b[^>]*?)\s(subcategorizationFrame)="[^"]*"', 'frame'),
                 (r'(<(?:Requires|Extends)\b[^>]*?)\s(id|version)="[^"]*"', 'dependency')]
        rng.shuffle(cands)
        for pat, what in cands:
            ms = list(re.finditer(pat, body))
            if ms:
                m = rng.choice(ms)
                return f'remove-attr:{what}@{m.group(2)}', body[:m.start()] + m.group(1) + body[m.end():], 'invalid'
        return 'none', body, 'valid'
    if kind == 'rename-elem':
        tags = ['Tag', 'Example', 'Definition', 'Sense', 'Synset', 'Count', 'Form', 'SynsetRelation']
        rng.shuffle(tags)
        for t in tags:
            if f'<{t} ' in body or f'<{t}>' in body:
                new = rng.choice(['Foo', t + 's', t.lower()])
                b2 = re.sub(rf'<{t}\b', '<' + new, body, count=1)
                if f'</{t}>' in body[body.find('<' + t):]:
                    i = b2.find('<' + new)
                    j = b2.find(f'</{t}>', i)
                    b2 = b2[:j] + f'</{new}>' + b2[j + len(t) + 3:]
                return f'rename-elem:{t}->{new}', b2, 'invalid'
        return 'none', body, 'valid'
    if kind == 'other-version-elem':
        if v == '1.0':
            i = body.find('</Lemma>')
            if i >= 0:
                return 'other-version-elem:Pronunciation-in-1.0', body[:i] + '<Pronunciation>x</Pronunciation>' + body[i:], 'invalid'
            i = body.find('<LexicalEntry')
            return 'other-version-elem:Requires-in-1.0', body[:i] + '<Requires id="q" version="1"/>\n' + body[i:], 'invalid'
        return 'none', body, 'valid'
    if kind == 'dup-single':
        m = re.search(r'<Lemma\b[^>]*?/>', body)
        if m:
            return 'dup-single:Lemma', body[:m.end()] + m.group(0) + body[m.end():], 'invalid'
        m = re.search(r'<ILIDefinition\b[^>]*>[^<]*</ILIDefinition>', body)
        if m:
            return 'dup-single:ILIDefinition', body[:m.end()] + m.group(0) + body[m.end():], 'invalid'
        m = re.search(r'<Lemma\b[^>]*>.*?</Lemma>', body, flags=re.S)
        if m:
            return 'dup-single:Lemma', body[:m.end()] + m.group(0) + body[m.end():], 'invalid'
        return 'none', body, 'valid'
    if kind == 'truncated':
        # the file ends early, right after a complete tag: nothing mismatches, the document just never closes
        cut = rng.choice(['</LexicalResource>', '</Lexicon', '</LexicalResource>'])
        i = body.rfind(cut)
        if i > 0:
            return 'truncated:before-' + cut.strip('</>'), body[:i], 'invalid'
    if kind == 'unbalanced':
        ms = list(re.finditer(r'</(LexicalEntry|Synset|Sense|Lexicon|LexicalResource)>', body))
        if ms:
            m = rng.choice(ms)
            return 'unbalanced:' + m.group(1), body[:m.start()] + body[m.end():], 'invalid'
    return 'none', body, 'valid'


def gen(rng):
    res, v = base_doc(rng)
    text = docs.to_xml(res)
    r = rng.random()
    if r < 0.25:
        return {'kind': 'valid', 'text': text, 'v': v, 'expected': 'valid', 'res': res}
    if r < 0.45:
        return {'kind': 'valid-restyled', 'text': restyle(text, rng), 'v': v, 'expected': 'valid', 'res': res}
    kind, t2, exp = mutate(text, v, rng)
    return {'kind': kind, 'text': t2, 'v': v, 'expected': exp, 'res': res}


def _impl(sc):
    import wnenv
    wn = wnenv.wn
    from wn import lmf
    out = {}
    d = wnenv.workdir()
    try:
        f = d / 'doc.xml'
        f.write_bytes(sc['text'].encode('utf-8'))
        try:
            r = lmf.load(f, progress_handler=None)
            out['load'] = 'ok'
            out['loaded'] = r
            out['load_infos'] = [{'id': lx['id'], 'version': lx['version'], 'label': lx.get('label'),
                                  'extends': [lx['extends']['id'], lx['extends']['version']] if lx.get('extends') else None}
                                 for lx in r['lexicons']]
        except Exception as e:
            out['load'] = 'error'
            out['load_exc'] = type(e).__name__ + ': ' + str(e)[:120]
        if out['load'] == 'ok':
            # every file produced by dump() is accepted (header, whole document, scan)
            try:
                g = d / 'dumped.xml'
                g.write_text('not a wordnet yet')      # the destination is looked at before it is written
                try:
                    lmf.is_lmf(g)
                except Exception:
                    pass
                lmf.dump(r, g)
                stage = 'is_lmf'
                out['dump'] = 'ok' if lmf.is_lmf(g) else 'is_lmf false'
                stage = 'load'
                r2 = lmf.load(g, progress_handler=None)
                stage = 'scan'
                lmf.scan_lexicons(g)
                if [(x['id'], x['version']) for x in r2['lexicons']] != [(x['id'], x['version']) for x in r['lexicons']]:
                    out['dump'] = 'reload lists other lexicons'
            except Exception as e:
                out['dump'] = f'{stage if "stage" in dir() else "dump"}: {type(e).__name__}: {str(e)[:100]}'
            # … in every version dump() can be asked for: the headers of the plain lexicons with a dependency,
            # written as WN-LMF 1.0 (which has no <Requires>) and as 1.1
            if out.get('dump') == 'ok':
                for tv in ('1.0', '1.1'):
                    try:
                        hdrs = []
                        for x in r['lexicons']:
                            if x.get('extends'):
                                continue
                            h = {k_: v_ for k_, v_ in x.items() if k_ not in ('entries', 'synsets', 'frames', 'extends')}
                            h['requires'] = [{'id': 'dep', 'version': '1', 'url': None}]
                            hdrs.append(h)
                        if not hdrs:
                            break
                        g2 = d / f'dumped-{tv}.xml'
                        lmf.dump({'lmf_version': tv, 'lexicons': hdrs}, g2)
                        lmf.load(g2, progress_handler=None)
                    except Exception as e:
                        out['dump'] = f'dump as {tv} of lexicons with a dependency: {type(e).__name__}: {str(e)[:100]}'
        out['is_lmf'] = lmf.is_lmf(f)
        try:
            infos = lmf.scan_lexicons(f)
            out['scan'] = [{'id': i['id'], 'version': i['version'], 'label': i.get('label'),
                            'extends': [i['extends']['id'], i['extends']['version']] if i.get('extends') else None} for i in infos]
        except Exception as e:
            out['scan'] = 'error'
            out['scan_exc'] = type(e).__name__
        try:
            out['tree'] = c02.tree_of(f, sc['v'])
        except Exception:
            out['tree'] = None
        # add on a database that already holds something
        wnenv.fresh_db()
        pre = d / 'pre.xml'
        pre.write_text(docs.to_xml(docs.resource([{'id': 'pre', 'version': '1', 'label': 'p', 'language': 'en', 'email': 'e', 'license': 'l', 'meta': None,
                                                     'synsets': [{'id': 'pre-1', 'ili': 'i1', 'partOfSpeech': 'n', 'meta': None}]}], '1.0')))
        wn.add(pre, progress_handler=None)
        before = c06.dump(wn._db.connect())
        try:
            wn.add(f, progress_handler=None)
            out['add'] = 'ok'
        except Exception as e:
            out['add'] = 'error'
            out['add_exc'] = type(e).__name__ + ': ' + str(e)[:100]
        out['db_changed'] = (c06.dump(wn._db.connect()) != before)
        out['installed'] = sorted(f'{l.id}:{l.version}' for l in wn.lexicons())
        return out
    except Exception as e:
        import traceback
        return {'exception': repr(e), 'tb': traceback.format_exc()[-1200:]}
    finally:
        shutil.rmtree(d, ignore_errors=True)
        wnenv.cleanup()


def header_lines(text):
    """the two `readline()` results"""
    parts = text.split('\n')
    l1 = parts[0] + ('\n' if len(parts) > 1 else '')
    l2 = (parts[1] + ('\n' if len(parts) > 2 else '')) if len(parts) > 1 else ''
    return l1, l2


def m_f15(clause, scenario, detail):
    """F15: the scan reports the raw attribute text (entities unresolved), cuts a label at the other
    quote character, and misses an empty label"""
    if clause != 'scan_lexicons-reports-the-labels-of-the-full-load':
        return False
    for s, l in zip(detail['scan'], detail['load']):
        if s['id'] != l['id'] or s['version'] != l['version'] or s['extends'] != l['extends']:
            return False
        if s['label'] != l['label']:
            lab = l['label'] or ''
            if not (lab == '' or any(c in lab for c in '&<>"\'\t\n\r')):
                return False
    return True


MATCHERS = {'f15_scan_label_raw_text': m_f15}


def judge(ctx, sc, im, mo):
    small = {'kind': sc['kind'], 'v': sc['v'], 'text': sc['text'], 'expected': sc['expected']}
    if 'exception' in im:
        ctx.fail('document-is-processed', small, im)
        return
    ctx.dist['kind=' + sc['kind'].split(':')[0]] += 1
    ctx.case(sc['text'] if sc['kind'] != 'valid' else None)
    exp = sc['expected']
    if exp == 'valid':
        if im['load'] != 'ok':
            ctx.fail('valid-document-is-accepted-by-load', small, {'error': im.get('load_exc')})
            return
        if not im['is_lmf']:
            ctx.fail('is_lmf-true-for-an-accepted-header', small, {})
        if im['add'] != 'ok':
            ctx.fail('valid-document-is-accepted-by-add', small, {'error': im.get('add_exc')})
        if im.get('dump') != 'ok':
            ctx.fail('every-file-produced-by-dump-is-accepted', small, {'dump': im.get('dump')})
        # scan agrees with load
        if im['scan'] == 'error':
            ctx.fail('scan_lexicons-succeeds-on-a-valid-document', small, {'exc': im.get('scan_exc')})
        else:
            s, l = im['scan'], im['load_infos']
            core_s = [(x['id'], x['version'], x['extends']) for x in s]
            core_l = [(x['id'], x['version'], x['extends']) for x in l]
            if core_s != core_l:
                ctx.fail('scan_lexicons-reports-ids-versions-and-extension-bases-of-the-full-load-in-order', small, {'scan': s, 'load': l})
            elif [x['label'] for x in s] != [x['label'] for x in l]:
                ctx.fail('scan_lexicons-reports-the-labels-of-the-full-load', small, {'scan': s, 'load': l})
    else:
        if im['load'] != 'error':
            ctx.fail('invalid-document-is-rejected-by-load', small, {})
        if im['add'] != 'error':
            ctx.fail('invalid-document-is-rejected-by-add', small, {'installed': im.get('installed')})
        if im['db_changed']:
            ctx.fail('rejected-document-leaves-the-database-unchanged', small, {'installed': im.get('installed')})
        if exp == 'invalid-header' and im['is_lmf']:
            ctx.fail('is_lmf-false-when-load-rejects-the-header', small, {})
        if exp == 'invalid' and not im['is_lmf']:
            ctx.fail('is_lmf-true-for-an-accepted-header', small, {})
    # correspondence
    if mo is not None:
        h, sn, ld = mo
        if h['is_lmf'] != im['is_lmf']:
            ctx.disagree(small, im['is_lmf'], h, 'is_lmf')
        exp_scan = im['scan']
        if sn != exp_scan:
            ctx.disagree(small, exp_scan, sn, 'scan_lexicons')
        if ld is not None and h['version'] is not None:
            ok_model = bool(ld.get('ok'))
            if ok_model != (im['load'] == 'ok'):
                ctx.disagree(small, im['load'] + ' ' + im.get('load_exc', ''), ld, 'load accepts/rejects')
            elif ok_model and not ld.get('equal', True):
                from props.c01 import diff
                d = diff(ld.get('impl'), ld.get('model'))
                ctx.disagree(small, d[1] if d else None, d[2] if d else None, 'load result at ' + (d[0] if d else '?'))


def process(ctx, scs):
    import multiprocessing as mp
    with mp.get_context('fork').Pool(min(12, max(1, len(scs)))) as pool:
        impls = pool.map(_impl, scs, chunksize=1)
    models = [None] * len(scs)
    if ctx.lean['driver_ok']:
        reqs = []
        for sc, im in zip(scs, impls):
            l1, l2 = header_lines(sc['text'])
            reqs.append({'op': 'header', 'l1': l1, 'l2': l2})
            reqs.append({'op': 'scan', 'text': sc['text']})
            if isinstance(im, dict) and im.get('tree') is not None:
                reqs.append({'op': 'load', 'tree': im['tree'], 'v': sc['v'], 'expect': im.get('loaded')})
            else:
                reqs.append({'op': 'ping'})
        ans = leanside.run_driver(reqs)
        models = [(ans[3 * i], ans[3 * i + 1], None if 'pong' in ans[3 * i + 2] else ans[3 * i + 2]) for i in range(len(scs))]
    for sc, im, mo in zip(scs, impls, models):
        judge(ctx, sc, im, mo)


def load_corpus():
    d = leanside.ROOT / 'corpus' / PID
    out = []
    for f in (sorted(x for x in d.glob('*.json') if not x.name.startswith(('seeded-', 'regress-'))) if d.is_dir() else []):
        sc = json.loads(f.read_text())['scenario']
        out.append(dict(sc, res=None))
    return out


def run(ctx):
    scs = load_corpus() + [gen(ctx.rng) for _ in range(120 if ctx.tier == 'quick' else 2500)]
    process(ctx, scs)
    mut = [s for s in scs if s['kind'] not in ('valid', 'valid-restyled', 'none')]
    ctx.sample({'mutation': mut[-1]['kind'], 'first_lines': mut[-1]['text'].split('\n')[:4]} if mut else {'kind': scs[-1]['kind']})


def widen(ctx):
    process(ctx, [gen(ctx.rng) for _ in range(600)])


def replay(ctx, scenario):
    sc = {'kind': scenario.get('kind', 'replay'), 'text': scenario['text'], 'v': scenario['v'],
          'expected': 'valid' if scenario.get('kind', '').startswith('valid') else 'invalid', 'res': None}
    if 'expected' in scenario:
        sc['expected'] = scenario['expected']
    process(ctx, [sc])
