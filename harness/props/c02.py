"""C02 — WN-LMF load/dump is a lossless round trip in every supported version."""
import copy
import json
import shutil
import xml.etree.ElementTree as ET

import docs
import leanside

PID = 'C02'
RULE = ('one evaluation = one generated resource in the loader\'s normal form for one LMF version (plain lexicons and extensions, every optional '
        'attribute present or absent, hostile attribute values, metadata on every element that allows it): wn.lmf.dump and wn.lmf.load of the '
        'real library are compared with the Lean tree model (dumpTree / loadTree), the round trip load(dump(r)) = r and the byte fixed point '
        'dump(load(dump(r))) = dump(r) are judged on the real code; a second stream with explicit default values is judged modulo canon; '
        'non-trivial = the resource has an extension or >= 6 kinds of optional children; distinct = distinct (resource, version)')
ASSUMPTIONS = ['expat tokenisation (bytes -> events) is not modelled: the tree given to the model is extracted with ElementTree from the same file',
               'characters outside the XML 1.0 Char production are outside the domain']

XMLNS = '{http://www.w3.org/XML/1998/namespace}'
CDATA = {'Pronunciation', 'Tag', 'Definition', 'ILIDefinition', 'Example', 'Count'}


def tree_of(path, v):
    """the element tree of a file, in the model's vocabulary"""
    uri = '{' + docs.DC_URI[v] + '}'

    def conv(e):
        attrs = []
        for k, val in e.attrib.items():
            if k.startswith(uri):
                k = 'dc:' + k[len(uri):]
            elif k.startswith(XMLNS):
                k = 'xml:' + k[len(XMLNS):]
            attrs.append([k, val])
        text = ''
        if e.tag in CDATA:
            text = e.text or ''
            if e.attrib.get(XMLNS + 'space', '') != 'preserve':
                text = ' '.join(text.split())
        return {'name': e.tag, 'attrs': attrs, 'text': text, 'children': [conv(c) for c in e]}
    return conv(ET.parse(path).getroot())


def canon(x):
    """erase the distinctions the code itself ignores through truthiness tests"""
    if isinstance(x, dict):
        out = {}
        for k, v in x.items():
            if k in ('phonemic', 'lexicalized') and v is True:
                continue
            if v == '' and k in ('script', 'url', 'citation', 'logo', 'language', 'sourceSense', 'adjposition', 'lexfile', 'variety',
                                 'notation', 'audio', 'partOfSpeech'):
                continue
            if v in ([], None) and k in ('subcat', 'members', 'senses', 'forms', 'frames', 'entries', 'synsets', 'requires', 'relations',
                                         'examples', 'counts', 'definitions', 'tags', 'pronunciations'):
                continue
            if k == 'id' and v == '':
                continue
            if k == 'meta' and isinstance(v, dict):
                v = {a: b for a, b in v.items() if b != ''} or None
            out[k] = canon(v)
        return out
    if isinstance(x, list):
        return [canon(v) for v in x]
    return x


def gen(rng, k, explicit_defaults=False):
    g = docs.Gen(rng, hostile=rng.choice([0.2, 0.5]), rich=rng.choice([0.5, 0.8]))
    v = rng.choice(['1.0', '1.1', '1.2', '1.3'])
    a = g.lexicon('a', '1', v)
    lexs = [a]
    if v != '1.0' and rng.random() < 0.6:
        lexs.append(g.extension('ax', a, '1', v, with_forms=rng.random() < 0.5))
    if rng.random() < 0.3:
        lexs.append(g.lexicon('b', '2', v, requires=[{'id': 'a', 'version': '1', 'url': 'http://a'}] if v != '1.0' else None))
    res = docs.resource(lexs, v)
    if v != '1.0':
        # pronunciations with phonemic="false" on every kind of form-like element, external ones included
        for lx in res['lexicons']:
            for e in lx.get('entries', []):
                for f in ([e['lemma']] if e.get('lemma') else []) + e.get('forms', []):
                    if rng.random() < 0.35:
                        f.setdefault('pronunciations', []).append({'text': 'pr ' + str(rng.randrange(99)), 'phonemic': False})
    if not explicit_defaults:
        # strict stream: no explicitly written default values (they belong to the canon stream)
        for lx in res['lexicons']:
            for e in lx.get('entries', []):
                for f in [e.get('lemma') or {}] + e.get('forms', []):
                    for p in f.get('pronunciations', []):
                        if p.get('phonemic') is True:
                            del p['phonemic']
                for s in e.get('senses', []):
                    if s.get('lexicalized') is True:
                        del s['lexicalized']
            for y in lx.get('synsets', []):
                if y.get('lexicalized') is True:
                    del y['lexicalized']
    if explicit_defaults:
        for lx in res['lexicons']:
            for e in lx.get('entries', []):
                for f in [e.get('lemma') or {}] + e.get('forms', []):
                    for p in f.get('pronunciations', []):
                        if rng.random() < 0.5:
                            p['phonemic'] = True
                for s in e.get('senses', []):
                    if not s.get('external') and rng.random() < 0.3:
                        s['lexicalized'] = True
            for y in lx.get('synsets', []):
                if not y.get('external') and rng.random() < 0.3:
                    y['lexicalized'] = True
    return {'res': res, 'explicit': explicit_defaults}


def _impl(sc):
    import wnenv
    from wn import lmf
    out = {}
    d = wnenv.workdir()
    try:
        r = copy.deepcopy(sc['res'])
        v = r['lmf_version']
        f1 = d / 'd1.xml'
        lmf.dump(r, f1)
        out['input_unmodified'] = (r == sc['res'])
        out['dump_tree'] = tree_of(f1, v)
        b1 = f1.read_bytes()
        out['is_lmf'] = lmf.is_lmf(f1)
        try:
            r2 = lmf.load(f1, progress_handler=None)
            out['loaded'] = r2
            f2 = d / 'd2.xml'
            lmf.dump(copy.deepcopy(r2), f2)
            b2 = f2.read_bytes()
            out['fixpoint'] = (b1 == b2)
            if b1 != b2:
                l1, l2 = b1.decode('utf-8').splitlines(), b2.decode('utf-8').splitlines()
                for i, (x, y) in enumerate(zip(l1, l2)):
                    if x != y:
                        out['fixpoint_diff'] = [i, x[:200], y[:200]]
                        break
            # the same resource rendered independently of the library, with the insignificant white space of
            # its text nodes written as character references: it loads to the same resource
            r3 = copy.deepcopy(sc['res'])
            for lx in r3['lexicons']:
                for y in lx.get('synsets', []):
                    for t in y.get('definitions', []) + y.get('examples', []) + ([y['ili_definition']] if y.get('ili_definition') else []):
                        t['_pad'] = 'refs'
                for e in lx.get('entries', []):
                    for s_ in e.get('senses', []):
                        for t in s_.get('examples', []):
                            t['_pad'] = 'refs'
            f3 = d / 'foreign.xml'
            f3.write_text(docs.to_xml(r3), encoding='utf-8')
            try:
                out['foreign_loaded'] = lmf.load(f3, progress_handler=None)
            except Exception as e:
                out['foreign_error'] = type(e).__name__ + ': ' + str(e)[:200]
        except Exception as e:
            out['load_error'] = type(e).__name__ + ': ' + str(e)[:200]
        return out
    except Exception as e:
        import traceback
        return {'exception': repr(e), 'tb': traceback.format_exc()[-1200:]}
    finally:
        shutil.rmtree(d, ignore_errors=True)


def norm_tree(t):
    return {'name': t['name'], 'attrs': [list(a) for a in t['attrs']], 'text': t['text'], 'children': [norm_tree(c) for c in t['children']]}


def tree_diff(a, b, path=''):
    if a['name'] != b['name']:
        return path, a['name'], b['name']
    p = f"{path}/{a['name']}"
    if a['attrs'] != b['attrs']:
        return p + '@attrs', a['attrs'], b['attrs']
    if a['text'] != b['text']:
        return p + '#text', a['text'], b['text']
    if len(a['children']) != len(b['children']):
        return p + '#children', [c['name'] for c in a['children']], [c['name'] for c in b['children']]
    for i, (x, y) in enumerate(zip(a['children'], b['children'])):
        d = tree_diff(x, y, f'{p}[{i}]')
        if d:
            return d
    return None


def kinds(res):
    from props.c01 import kinds_present
    return kinds_present(res)


def judge(ctx, sc, im, mo_dump, mo_load):
    res = sc['res']
    small = {'res': res, 'explicit_defaults': sc['explicit']}
    if 'exception' in im:
        ctx.fail('dump-of-a-normal-form-resource-succeeds', small, im)
        return
    ks = kinds(res)
    ctx.dist['lmf=' + res['lmf_version']] += 1
    ctx.dist['explicit-defaults' if sc['explicit'] else 'strict'] += 1
    ctx.case(json.dumps(res, sort_keys=True, default=str) if ('extension' in ks or len(ks) >= 6) else None)
    if mo_dump is not None:
        d = tree_diff(norm_tree(im['dump_tree']), norm_tree(mo_dump))
        if d:
            ctx.disagree(small, d[1], d[2], 'dump ' + d[0])
    if not im.get('input_unmodified', True):
        ctx.fail('dump-does-not-modify-the-resource', small, {})
    if not im.get('is_lmf'):
        ctx.fail('dumped-file-is-recognised-as-WN-LMF', small, {})
    if 'load_error' in im:
        ctx.fail('dumped-file-loads', small, {'error': im['load_error']})
        return
    if 'foreign_error' in im:
        ctx.fail('independent-rendering-of-the-resource-loads', small, {'error': im['foreign_error']})
    elif 'foreign_loaded' in im and canon(im['foreign_loaded']) != canon(im['loaded']):
        from props.c01 import diff as _diff
        dd = _diff(canon(im['foreign_loaded']), canon(im['loaded']))
        ctx.fail('independent-rendering(white-space-as-character-references)-loads-to-the-same-resource', small,
                 {'path': dd[0] if dd else '?', 'foreign': dd[1] if dd else None, 'dumped': dd[2] if dd else None})
    if mo_load is not None:
        if not mo_load.get('ok'):
            ctx.disagree(small, 'loaded', mo_load, 'load: model rejects the dumped tree')
        elif not mo_load.get('equal'):
            from props.c01 import diff
            d = diff(mo_load.get('impl'), mo_load.get('model'))
            ctx.disagree(small, d[1] if d else None, d[2] if d else None, 'load: different resource at ' + (d[0] if d else '?'))
    want, got = (canon(res), canon(im['loaded'])) if sc['explicit'] else (res, im['loaded'])
    if json.dumps(want, sort_keys=True, default=str) != json.dumps(got, sort_keys=True, default=str):
        from props.c01 import diff
        d = diff(json.loads(json.dumps(want, default=str)), json.loads(json.dumps(got, default=str)))
        ctx.fail('load(dump(r))=r' + ('(modulo-explicit-defaults)' if sc['explicit'] else ''), small,
                 {'path': d[0] if d else '?', 'original': d[1] if d else None, 'after_round_trip': d[2] if d else None})
    if im.get('fixpoint') is False:
        ctx.fail('dump(load(dump(r)))-reproduces-the-same-bytes', small, {'first_different_line': im.get('fixpoint_diff')})


MATCHERS = {}


def process(ctx, scs):
    import multiprocessing as mp
    with mp.get_context('fork').Pool(min(12, max(1, len(scs)))) as pool:
        impls = pool.map(_impl, scs, chunksize=1)
    if ctx.lean['driver_ok']:
        dumps = leanside.run_driver([{'op': 'dump', 'res': sc['res']} for sc in scs])
        reqs = []
        for sc, im in zip(scs, impls):
            if 'dump_tree' in im and 'loaded' in im:
                reqs.append({'op': 'load', 'tree': im['dump_tree'], 'v': sc['res']['lmf_version'], 'expect': im['loaded']})
            else:
                reqs.append({'op': 'ping'})
        loads = leanside.run_driver(reqs)
    else:
        dumps = loads = [None] * len(scs)
    for sc, im, md, ml in zip(scs, impls, dumps, loads):
        judge(ctx, sc, im, md, ml if (ml and 'pong' not in ml) else None)


def run(ctx):
    n = 60 if ctx.tier == 'quick' else 1200
    scs = [gen(ctx.rng, k, explicit_defaults=(k % 4 == 3)) for k in range(n)]
    process(ctx, scs)
    r = scs[-2]['res']
    ctx.sample({'lmf_version': r['lmf_version'], 'lexicons': [[lx['id'], 'extension' if lx.get('extends') else 'plain', len(lx.get('entries', [])), len(lx.get('synsets', []))] for lx in r['lexicons']],
                'first_entry': r['lexicons'][0]['entries'][0]})


def widen(ctx):
    process(ctx, [gen(ctx.rng, k, explicit_defaults=(k % 4 == 3)) for k in range(400)])


def replay(ctx, scenario):
    process(ctx, [{'res': scenario['res'], 'explicit': scenario.get('explicit_defaults', False)}])
