"""C19 — loading an ILI index only updates ILI status and definitions."""
import itertools
import json

import docs
import leanside
import multi
import store
from props import c01

PID = 'C19'
RULE = ('one evaluation = one pair of histories interleaving add(lexicons) and add(ILI file) differently (index before / between / after the '
        'lexicons, loaded twice), each observed completely after every step; judged: listed ILIs get the file\'s status and definition, '
        'nothing else changes, reloading changes nothing, both interleavings end with the same ILI statuses and definitions; non-trivial = the '
        'file lists an ILI used by a lexicon and one that no lexicon uses, or a status other than active; distinct = distinct (files, lexicons, interleavings)')
ASSUMPTIONS = ['ILIs that no installed synset uses are visible through wn.ilis()/wn.ili() only while no lexicon is installed (find_ilis filters by the selected lexicons)']


def ili_file(rng, pool):
    header = rng.choice([['ili', 'status', 'definition'], ['ILI', 'Status', 'Definition'], ['ili', 'definition', 'status'],
                         ['ili', 'status'], ['ili'], ['ili', 'status', 'definition', 'extra']])
    lines = ['\t'.join(header)]
    rows = []
    for i in rng.sample(pool, rng.randint(1, len(pool))):
        vals = {'ili': i, 'status': rng.choice(['active', 'active', 'provisional', 'deprecated', 'weird', 'presupposed']),
                'definition': rng.choice(['a thing', 'another & <thing>', '', 'x y', '"hot dog": a sausage', '"unclosed quote', "it's", 'semi;colon, comma',
                                         'first clause;\u2028second clause', 'page\x0cbreak', 'next\x85line', 'unit\x1fsep \x1c\x1d\x1e', 'vertical\x0btab', 'para\u2029graph'])}
        cells = [vals.get(h.lower(), 'zzz') for h in header]
        if rng.random() < 0.2:
            cells = cells[:rng.randint(1, len(cells))]     # short row
        lines.append('\t'.join(cells))
        rows.append(dict(zip([h.lower() for h in header], cells)))
    return lines, rows


def gen(rng):
    g = docs.Gen(rng, hostile=0.05, rich=0.4)
    pool = [f'i{k}' for k in range(1, 8)]
    a = g.lexicon('a', '1', '1.1', n_syn=rng.randint(3, 5), n_ent=2, ili_pool=pool[:5])
    b = g.lexicon('b', '1', '1.1', n_syn=rng.randint(2, 4), n_ent=2, ili_pool=pool[2:6])
    lines, rows = ili_file(rng, pool)
    lines2, rows2 = ili_file(rng, pool)
    A = {'k': 'add', 'res': docs.resource([a], '1.1')}
    B = {'k': 'add', 'res': docs.resource([b], '1.1')}
    I = {'k': 'ili', 'lines': lines, '_rows': rows}
    I2 = {'k': 'ili', 'lines': lines2, '_rows': rows2}
    # the second index always comes after the first (a later file overrides an earlier one)
    orders = [[A, B, I, I2], [I, I2, A, B], [A, I, B, I2], [I, A, I2, B], [A, I, I2, B]]
    h1, h2 = rng.sample(orders, 2)
    watch = {'k': 'ilis', 'ids': pool}
    hs = []
    for h in (h1, h2):
        ops = []
        for op in h:
            ops += [op, {'k': 'obs'}, watch]
        ops += [I2, {'k': 'obs'}, watch]        # loading the same file again
        hs.append({'ops': ops})
    return {'histories': hs, 'rows': rows + rows2}


def expected_for(rows):
    exp = {}
    for r in rows:
        exp[r.get('ili', '')] = (r.get('status', 'active'), r.get('definition'))
    return exp


def strip_ili(obs, listed):
    o = json.loads(json.dumps(store.canon_obs(obs)))
    for x in o:
        for y in x['scope']['synsets']:
            if isinstance(y['ili'], dict) and y['ili'].get('id') in listed:
                y['ili'] = {'id': y['ili']['id'], 'meta': y['ili'].get('meta')}
        x['scope']['ilis'] = [i if i[0] not in listed else [i[0]] for i in x['scope']['ilis']]
    return o


def judge(ctx, sc, ims):
    finals = []
    for h, im in zip(sc['histories'], ims):
        ops = h['ops']
        loaded = False
        prev_obs = None
        prev_ilis = None
        exp_all = None
        for k, op in enumerate(ops):
            if op['k'] == 'ili':
                exp = expected_for(op['_rows'])
                listed = set(exp)
                exp_all = dict(exp_all or {}, **exp)
                if not im[k].get('ok'):
                    ctx.fail('index-file-is-accepted', sc, {'out': im[k]})
                    return
                obs_after, ilis_after = im[k + 1], im[k + 2]
                # listed ILIs carry the file's status and definition (where visible)
                for i, v in ilis_after['by_id'].items():
                    if v != 'error' and i in exp:
                        if (v[1], v[2]) != exp[i]:
                            ctx.fail('listed-ILI-gets-the-file-status-and-definition', sc, {'ili': i, 'got': v[1:], 'expected': list(exp[i])})
                if prev_obs is not None:
                    d = c01.diff(strip_ili(prev_obs, listed), strip_ili(obs_after, listed))
                    if d:
                        ctx.fail('index-changes-nothing-but-status-and-definition-of-listed-ILIs', sc, {'path': d[0], 'before': d[1], 'after': d[2]})
                    for i, v in prev_ilis['by_id'].items():
                        if i not in exp and ilis_after['by_id'].get(i) != v:
                            ctx.fail('unlisted-ILIs-unchanged', sc, {'ili': i, 'before': v, 'after': ilis_after['by_id'].get(i)})
                if loaded and ops[k - 3] is op:
                    if store.canon_obs(prev_obs) != store.canon_obs(obs_after) or sorted(map(json.dumps, prev_ilis['all'])) != sorted(map(json.dumps, ilis_after['all'])):
                        ctx.fail('loading-the-same-file-again-changes-nothing', sc, {})
                loaded = True
            if op['k'] == 'obs':
                prev_obs = im[k]
            if op['k'] == 'ilis':
                prev_ilis = im[k]
                # Synset.ili shows the ILI as wn.ili(id) shows it
                for i_, lst in (im[k].get('_via_synsets') or {}).items():
                    v_ = im[k]['by_id'].get(i_)
                    if v_ not in (None, 'error') and lst != [v_[1:]]:
                        ctx.fail('Synset.ili-reports-the-status-and-definition-of-its-ILI', sc, {'ili': i_, 'via synsets': lst, 'wn.ili(id)': v_[1:]})
                        break
                # an index loaded into a database without lexicons is listed by ilis()
                if loaded and prev_obs == [] and exp_all is not None:
                    missing = sorted(set(exp_all) - {i[0] for i in im[k]['all']})
                    if missing:
                        ctx.fail('ilis()-lists-the-ILIs-of-the-loaded-index-while-no-lexicon-is-installed', sc, {'missing': missing[:6], 'listed': [i[0] for i in im[k]['all']][:6]})
                # ilis(status=s) is the sub-list of ilis() with that status
                for fld in ('_by_status', '_by_status_w'):
                    for st, got in (im[k].get(fld) or {}).items():
                        want = sorted(json.dumps([i[0], i[1]]) for i in im[k]['all'] if i[1] == st)
                        if sorted(json.dumps(x) for x in got) != want:
                            ctx.fail('ilis(status=s)=the-ILIs-of-ilis()-with-status-s', sc,
                                     {'status': st, 'via': 'wn.ilis' if fld == '_by_status' else 'Wordnet.ilis', 'got': got[:6], 'expected': want[:6]})
        finals.append((store.canon_obs(prev_obs), {i: v for i, v in prev_ilis['by_id'].items()}, sorted(map(json.dumps, prev_ilis['all']))))
    if finals[0][1] != finals[1][1] or finals[0][2] != finals[1][2]:
        ctx.fail('ILI-statuses-and-definitions-independent-of-load-order', sc, {'first': finals[0][1], 'second': finals[1][1]})
    def no_ili_meta(o):      # ILI metadata is not part of what the statement fixes across load orders
        o = json.loads(json.dumps(o))
        for x in o:
            for y in x['scope']['synsets']:
                if isinstance(y['ili'], dict) and y['ili'].get('id') is not None:
                    y['ili'].pop('meta', None)
        return o
    d = c01.diff(no_ili_meta(finals[0][0]), no_ili_meta(finals[1][0]))
    if d:
        ctx.fail('observation-independent-of-load-order', sc, {'path': d[0], 'first': d[1], 'second': d[2]})


MATCHERS = {}


def process(ctx, scs):
    flat = [h for sc in scs for h in sc['histories']]
    impls, models = multi.execute(ctx, flat)
    it = iter(zip(impls, models))
    for sc in scs:
        pairs = [next(it) for _ in sc['histories']]
        used = {y['ili'] for h in sc['histories'][:1] for op in h['ops'] if op['k'] == 'add' for lx in op['res']['lexicons'] for y in lx['synsets']}
        listed = set(expected_for(sc['rows']))
        nontriv = bool(listed & used) and bool(listed - used) or any(r.get('status', 'active') != 'active' for r in sc['rows'])
        ctx.case(sc['rows'] + [len(p[0]) if isinstance(p[0], list) else 0 for p in pairs] if nontriv else None)
        ok = True
        for h, (im, mo) in zip(sc['histories'], pairs):
            if isinstance(im, dict):
                ctx.fail('history-runs', sc, im)
                ok = False
                continue
            if mo is not None:
                for k, (op, oi, om) in enumerate(zip(h['ops'], im, mo)):
                    if op['k'] == 'obs':
                        d = c01.diff(store.canon_obs(oi), store.canon_obs(om))
                        if d:
                            ctx.disagree(h, d[1], d[2], f'op[{k}].obs{d[0]}')
                            break
                    elif op['k'] == 'ilis':
                        ci = {'all': sorted(map(json.dumps, oi['all'])), 'by_id': oi['by_id']}
                        cm = {'all': sorted(map(json.dumps, om['all'])), 'by_id': om['by_id']}
                        if ci != cm:
                            ctx.disagree(h, ci, cm, f'op[{k}].ilis')
                            break
                    elif oi.get('ok') != om.get('ok'):
                        ctx.disagree(h, oi, om, f'op[{k}].ok')
                        break
        if ok:
            judge(ctx, sc, [p[0] for p in pairs])


def run(ctx):
    scs = [gen(ctx.rng) for _ in range(20 if ctx.tier == 'quick' else 300)]
    process(ctx, scs)
    ctx.sample({'ili_file_rows': scs[-1]['rows'], 'histories': [[op['k'] + (':' + op['res']['lexicons'][0]['id'] if op['k'] == 'add' else '') for op in h['ops'] if op['k'] in ('add', 'ili')] for h in scs[-1]['histories']]})


def widen(ctx):
    process(ctx, [gen(ctx.rng) for _ in range(100)])


def replay(ctx, scenario):
    if 'histories' in scenario:
        process(ctx, [scenario])
    else:
        process(ctx, [{'histories': [scenario, scenario], 'rows': []}])
