"""C13 — taxonomy functions agree with graph-theoretic definitions on any hypernym graph."""
import itertools

import graphs as G
import leanside

PID = 'C13'
RULE = ('one evaluation = one digraph (all nodes x all ordered pairs x simulate_root in {False, True}); '
        'non-trivial = the graph has a node with >= 2 hypernyms, a cycle, a self-loop or >= 2 roots; '
        'distinct = distinct (n, edge list, pos)')
ASSUMPTIONS = [
    'Synset.get_related() returns declared relation targets in declaration (rowid) order - checked per scenario through the path/closure correspondence',
    'the generator declares the reverse hyponym relation for every hypernym edge, so "without hyponyms" = "no synset has it as hypernym"',
]
TRUSTED_EXTRA = ['SQLite result order of get_synset_relations (no ORDER BY): observed, not proved']


def gen(ctx):
    gs = []
    if ctx.tier == 'thorough':
        for n in (1, 2, 3):
            gs.extend(G.exhaustive(n))
        ctx.exhaustive = False
        nrand = 1500
    else:
        for n in (1, 2):
            gs.extend(G.exhaustive(n))
        ex3 = list(G.exhaustive(3))
        gs.extend(ctx.rng.sample(ex3, 90))
        nrand = 160
    for j_ in range(nrand):
        g_ = G.random_graph(ctx.rng, 8 if ctx.tier == 'quick' else 10)
        if j_ % 4 == 0 and g_['n'] >= 3:
            # the taxonomy continues in an extension: the upper synsets are the base lexicon's, the lower ones (and
            # every relation touching them) the extension's; the Wordnet selects both
            g_['split'] = ctx.rng.randint(1, g_['n'] - 1)
        gs.append(g_)
    # drop graphs whose path enumeration explodes (dense cycles on many nodes)
    gs = [g for g in gs if len(g['edges']) <= 22]
    return gs


def compare(ctx, g, impl, model):
    """Correspondence: model output vs real library (paths as sets where the property
    says 'set of all maximal chains', floats through the exact rational)."""
    if 'exception' in impl:
        ctx.disagree(g, impl, None, 'exception')
        return
    for key in ('noroot', 'root'):
        i, m = impl[key], model[key]
        for x in range(g['n']):
            if sorted(map(tuple, i['paths'][x])) != sorted(map(tuple, m['paths'][x])):
                ctx.disagree(g, i['paths'][x], m['paths'][x], f'{key}.paths[{x}]')
        for f in ('min', 'max'):
            if i[f] != m[f]:
                ctx.disagree(g, i[f], m[f], f'{key}.{f}')
        for k, (pi, pm) in enumerate(zip(i['pairs'], m['pairs'])):
            a, b = divmod(k, g['n'])
            for f in ('common', 'lowest'):
                if pi[f] != pm[f]:
                    ctx.disagree(g, pi[f], pm[f], f'{key}.{f}({a},{b})')
            if g.get('split'):
                # which of several equally short paths is returned depends on the order in which a synset's relations
                # are stored; with the relations of one synset spread over a base and an extension that order is not the
                # document's: compare the length here, the oracle judges that the path is a path
                if (pi['sp'] == 'error') != (pm['sp'] == 'error') or (pi['sp'] != 'error' and len(pi['sp']) != len(pm['sp'])):
                    ctx.disagree(g, pi['sp'], pm['sp'], f'{key}.shortest_path({a},{b}).length')
            elif pi['sp'] != pm['sp']:
                ctx.disagree(g, pi['sp'], pm['sp'], f'{key}.shortest_path({a},{b})')
    if impl['closure'] and [sorted(c) for c in impl['closure']] != [sorted(c) if c != 'fuel' else c for c in model['closure']]:
        ctx.disagree(g, impl['closure'], model['closure'], 'closure')
    for f in ('roots', 'leaves', 'depth'):
        if impl[f] != model[f]:
            ctx.disagree(g, impl[f], model[f], f)


def oracle(ctx, g, impl):
    """The property itself, stated on the public API's answers against independent
    graph algorithms.  Never consults the Lean model."""
    if 'exception' in impl:
        ctx.fail('terminates-without-exception', g, impl)
        return
    n = g['n']
    adj = G.hyp_lists(g)
    cyclic = G.is_cyclic(g)
    chains = [G.max_chains(adj, x) for x in range(n)]
    anc = [G.ancestors_star(adj, x) for x in range(n)]
    dist = [G.bfs_dist(adj, x) for x in range(n)]
    true_roots = [x for x in range(n) if not adj[x]]
    for key, root in (('noroot', False), ('root', True)):
        o = impl[key]
        if o.get('shortcuts_bad'):
            ctx.fail('Synset-shortcut-methods-agree-with-the-wn.taxonomy-functions', g,
                     {'simulate_root': root, '[method, node(s), method result, function result]': o['shortcuts_bad']})
        for x in range(n):
            exp = chains[x]
            if root:
                exp = [p + [-1] for p in exp] or [[-1]]
            got = o['paths'][x]
            if sorted(map(tuple, got)) != sorted(map(tuple, exp)):
                ctx.fail('hypernym_paths=all-maximal-simple-chains', g,
                         {'node': x, 'simulate_root': root, 'got': got, 'expected': exp})
            lens = [len(p) for p in exp]
            if o['min'][x] != (min(lens) if lens else 0):
                ctx.fail('min_depth', g, {'node': x, 'simulate_root': root, 'got': o['min'][x], 'expected': min(lens) if lens else 0})
            if o['max'][x] != (max(lens) if lens else 0):
                ctx.fail('max_depth', g, {'node': x, 'simulate_root': root, 'got': o['max'][x], 'expected': max(lens) if lens else 0})
        for a in range(n):
            for b in range(n):
                e = o['pairs'][a * n + b]
                rev = o['pairs'][b * n + a]
                common = anc[a] & anc[b]
                expc = sorted(common)
                if root:
                    expc = [-1] + expc
                if sorted(e['common']) != expc:
                    ctx.fail('common_hypernyms=intersection-of-ancestor-sets', g,
                             {'a': a, 'b': b, 'simulate_root': root, 'got': e['common'], 'expected': expc})
                if not set(e['lowest']) <= set(expc) or (bool(e['lowest']) != bool(expc)):
                    ctx.fail('lowest_common_hypernyms-subset-of-common', g,
                             {'a': a, 'b': b, 'simulate_root': root, 'got': e['lowest'], 'common': expc})
                if not cyclic:
                    def depth(c):
                        if c == -1:
                            return 0
                        ls = [len(p) for p in chains[c]]
                        return (max(ls) if ls else 0) + (1 if root else 0)
                    if a != b and expc:
                        md = max(depth(c) for c in expc)
                        expl = sorted(c for c in expc if depth(c) == md)
                        if sorted(e['lowest']) != expl:
                            ctx.fail('lowest_common_hypernyms=greatest-depth', g,
                                     {'a': a, 'b': b, 'simulate_root': root, 'got': e['lowest'], 'expected': expl})
                    if a == b and e['lowest'] != [a]:
                        ctx.fail('lowest_common_hypernyms=greatest-depth', g,
                                 {'a': a, 'b': b, 'simulate_root': root, 'got': e['lowest'], 'expected': [a]})
                sp = e['sp']
                if not expc:
                    if sp != 'error':
                        ctx.fail('shortest_path-error-iff-nothing-shared', g, {'a': a, 'b': b, 'simulate_root': root, 'got': sp})
                    continue
                if sp == 'error':
                    ctx.fail('shortest_path-error-iff-nothing-shared', g, {'a': a, 'b': b, 'simulate_root': root, 'got': sp, 'common': expc})
                    continue
                if (sp == []) != (a == b):
                    ctx.fail('shortest_path-empty-iff-same', g, {'a': a, 'b': b, 'simulate_root': root, 'got': sp})
                if sp and sp[-1] != b:
                    ctx.fail('shortest_path-ends-at-b', g, {'a': a, 'b': b, 'simulate_root': root, 'got': sp})
                # genuine path
                seq = [a] + sp
                ok = True
                for u, v in zip(seq, seq[1:]):
                    if u == -1 or v == -1:
                        w = v if u == -1 else u
                        if not cyclic and w not in true_roots:
                            ok = False
                    elif not (v in adj[u] or u in adj[v]):
                        ok = False
                if not ok:
                    ctx.fail('shortest_path-is-a-genuine-path', g, {'a': a, 'b': b, 'simulate_root': root, 'got': sp})
                # length = min over common c of dist(a,c)+dist(b,c)
                cands = [dist[a][c] + dist[b][c] for c in common]
                if root:
                    # distance to the simulated root = 1 + shortest maximal simple chain
                    droot = lambda x: min([len(p) for p in chains[x]] or [0]) + 1
                    cands.append(droot(a) + droot(b))
                if cands:
                    if len(sp) != min(cands):
                        ctx.fail('shortest_path-length=min-over-common', g,
                                 {'a': a, 'b': b, 'simulate_root': root, 'got': sp, 'expected_len': min(cands)})
                if rev['sp'] != 'error' and len(rev['sp']) != len(sp):
                    ctx.fail('shortest_path-length-symmetric', g, {'a': a, 'b': b, 'simulate_root': root, 'ab': sp, 'ba': rev['sp']})
    # roots / leaves / taxonomy_depth
    hypo = G.hypo_lists(g)
    poss = []
    for p in g['pos']:
        if p not in poss:
            poss.append(p)
    for p in poss:
        grp = {'a': ('a', 's'), 's': ('s', 'a')}.get(p, (p,))
        members = [x for x in range(n) if g['pos'][x] in grp]
        if sorted(impl['roots'][p]) != [x for x in members if not adj[x]]:
            ctx.fail('roots=synsets-without-hypernyms', g, {'pos': p, 'got': impl['roots'][p]})
        if sorted(impl['leaves'][p]) != [x for x in members if not hypo[x]]:
            ctx.fail('leaves=synsets-without-hyponyms', g, {'pos': p, 'got': impl['leaves'][p]})
        longest = max([len(c) for x in members for c in chains[x]] or [0])
        if impl['depth'][p] != longest:
            ctx.fail('taxonomy_depth=longest-chain', g, {'pos': p, 'got': impl['depth'][p], 'expected': longest,
                                                         'cyclic': cyclic})


def m_f14(clause, scenario, detail):
    """F14: taxonomy_depth under-reports on graphs with a hypernym cycle."""
    return (clause == 'taxonomy_depth=longest-chain' and G.is_cyclic(scenario)
            and detail['got'] < detail['expected'])


MATCHERS = {'f14_taxonomy_depth_cyclic': m_f14}


def load_corpus(ctx):
    import json
    d = leanside.ROOT / 'corpus' / PID
    out = []
    if d.is_dir():
        for f in sorted(x for x in d.glob('*.json') if not x.name.startswith(('seeded-', 'regress-'))):
            out.append(json.loads(f.read_text())['scenario'])
    return out


def process(ctx, gs):
    lchDs = [3] * len(gs)
    impl = G.run_impl(gs, lchDs)
    model = leanside.run_driver([G.model_request(g, d) for g, d in zip(gs, lchDs)]) if ctx.lean['driver_ok'] else [None] * len(gs)
    for g, i, m in zip(gs, impl, model):
        feats = G.features(g)
        for f in feats:
            ctx.dist[f] += 1
        ctx.dist[f'nodes={g["n"]}'] += 1
        ctx.case((g['n'], g['edges'], g['pos']) if feats else None)
        if m is not None:
            compare(ctx, g, i, m)
        oracle(ctx, g, i)
    return impl


def run(ctx):
    gs = load_corpus(ctx) + gen(ctx)
    impl = process(ctx, gs)
    for g, i in list(zip(gs, impl))[-3:]:
        ctx.sample({'graph': g, 'hypernym_paths(noroot)': i.get('noroot', {}).get('paths'),
                    'depth': i.get('depth')})


def widen(ctx):
    """failing-input search after a broken obligation / correspondence: more and larger graphs"""
    gs = [G.random_graph(ctx.rng, 10) for _ in range(1200)]
    gs = [g for g in gs if len(g['edges']) <= 24]
    process(ctx, gs)


def replay(ctx, scenario):
    process(ctx, [scenario])
