"""C18 — the validator always produces a report and each check is exact."""
import copy
import json
import shutil
import subprocess
import sys

import docs
import leanside
import store

PID = 'C18'
RULE = ('one evaluation = one (possibly broken) lexicon x one selection of check codes run through wn.validate.validate, compared with the Lean '
        'model of the eighteen checks and with the documented conditions evaluated independently; E204/E401 lexicons are also given to '
        'add_lexical_resource (must be rejected) and a few files to the CLI; non-trivial = at least one check reports an item; distinct = distinct (lexicon, selection)')
ASSUMPTIONS = ['exactness is judged on the set of reported ids and on "the context is one the condition justifies" when several items share an id (the report is keyed by id)']

ALL = ['E101', 'W201', 'W202', 'W203', 'E204', 'W301', 'W302', 'W303', 'W304', 'W305', 'W306', 'W307',
       'E401', 'W402', 'W403', 'W404', 'W501', 'W502']


def gen_lexicon(rng, k):
    g = docs.Gen(rng, hostile=0.05, rich=0.5)
    v = rng.choice(['1.0', '1.1', '1.3'])
    lx = g.lexicon('v', '1', v, n_syn=rng.randint(2, 6), n_ent=rng.randint(2, 5),
                   requires=([{'id': 'elsewhere', 'version': '9'}] if v != '1.0' and rng.random() < 0.4 else None))
    ents, syns = lx['entries'], lx['synsets']
    senses = [s for e in ents for s in e.get('senses', [])]
    for _ in range(rng.randint(0, 4)):
        d = rng.choice(['dup-entry', 'dup-sense', 'dup-synset', 'dup-form-id', 'dangling-synset', 'dangling-srel', 'dangling-yrel',
                        'empty-synset', 'rep-ili', 'spurious-ilidef', 'missing-ilidef', 'blank-def', 'blank-ex', 'rep-def',
                        'self-loop', 'redundant-rel', 'nonrecip', 'pos-clash', 'redundant-sense', 'redundant-entry', 'no-senses',
                        'bad-reltype', 'lexid-clash', 'dangling-hypernym', 'no-pos', 'cross-kind-target', 'cross-kind-target', 'reltype-sweep', 'reltype-sweep'])
        if d == 'dup-entry' and len(ents) >= 2:
            ents[1]['id'] = ents[0]['id']
        elif d == 'dup-sense' and len(senses) >= 2:
            senses[1]['id'] = senses[0]['id']
        elif d == 'dup-synset' and len(syns) >= 2:
            syns[1]['id'] = syns[0]['id']
        elif d == 'dup-form-id' and v != '1.0':
            for e in ents[:2]:
                e.setdefault('forms', []).append({'writtenForm': 'dupform' + e['id'], 'id': 'v-dupform'})
        elif d == 'dangling-synset' and senses:
            rng.choice(senses)['synset'] = 'v-missing'
        elif d == 'dangling-srel' and senses:
            rng.choice(senses).setdefault('relations', []).append({'target': 'v-nowhere', 'relType': 'antonym', 'meta': None})
        elif d in ('dangling-yrel', 'dangling-hypernym'):
            rng.choice(syns).setdefault('relations', []).append({'target': 'v-nowhere', 'relType': 'hypernym' if d == 'dangling-hypernym' else 'similar', 'meta': None})
        elif d == 'empty-synset':
            syns.append({'id': f'v-empty{len(syns)}', 'ili': '', 'partOfSpeech': 'n', 'meta': None})
        elif d == 'rep-ili' and len(syns) >= 2:
            syns[0]['ili'] = syns[1]['ili'] = 'i77'
        elif d == 'spurious-ilidef':
            y = rng.choice(syns)
            y['ili'] = 'i5'
            y['ili_definition'] = {'text': 'spurious', 'meta': None}
        elif d == 'missing-ilidef':
            y = rng.choice(syns)
            y['ili'] = 'in'
            y.pop('ili_definition', None)
        elif d == 'blank-def':
            rng.choice(syns).setdefault('definitions', []).append({'text': rng.choice(['', ' ', '\t ']), 'meta': None})
        elif d == 'blank-ex':
            rng.choice(syns).setdefault('examples', []).append({'text': rng.choice(['', '  ']), 'meta': None})
        elif d == 'rep-def' and len(syns) >= 2:
            for y in syns[:2]:
                y.setdefault('definitions', []).append({'text': 'the same words', 'meta': None})
        elif d == 'self-loop':
            y = rng.choice(syns)
            y.setdefault('relations', []).append({'target': y['id'], 'relType': 'similar', 'meta': None})
            if senses:
                s = rng.choice(senses)
                s.setdefault('relations', []).append({'target': s['id'], 'relType': 'also', 'meta': None})
        elif d == 'redundant-rel':
            y = rng.choice(syns)
            r = {'target': rng.choice(syns)['id'], 'relType': 'hypernym', 'meta': rng.choice([None, {'type': 'x'}])}
            y.setdefault('relations', []).extend([r, copy.deepcopy(r)])
        elif d == 'nonrecip' and len(syns) >= 2:
            syns[0].setdefault('relations', []).append({'target': syns[1]['id'], 'relType': rng.choice(['hypernym', 'mero_part', 'causes']), 'meta': None})
            if rng.random() < 0.5:
                syns[0]['relations'].append({'target': syns[1]['id'], 'relType': 'holo_part', 'meta': None})
        elif d == 'pos-clash' and len(syns) >= 2:
            syns[0]['partOfSpeech'], syns[1]['partOfSpeech'] = 'n', 'v'
            syns[0].setdefault('relations', []).append({'target': syns[1]['id'], 'relType': 'hypernym', 'meta': None})
        elif d == 'redundant-sense' and ents and ents[0].get('senses'):
            e = ents[0]
            e['senses'].append({'id': e['id'] + '-sx', 'synset': e['senses'][0]['synset'], 'meta': None})
        elif d == 'redundant-entry' and len(ents) >= 2 and ents[0].get('senses'):
            ents[1]['lemma']['writtenForm'] = ents[0]['lemma']['writtenForm']
            ents[1].setdefault('senses', []).append({'id': ents[1]['id'] + '-sy', 'synset': ents[0]['senses'][0]['synset'], 'meta': None})
        elif d == 'no-senses':
            ents.append({'id': f'v-lonely{len(ents)}', 'meta': None, 'lemma': {'writtenForm': 'lonely', 'partOfSpeech': 'n'}})
        elif d == 'bad-reltype' and senses:
            rng.choice(syns).setdefault('relations', []).append({'target': rng.choice(syns)['id'], 'relType': 'antonym', 'meta': None})
            rng.choice(senses).setdefault('relations', []).append({'target': rng.choice(syns)['id'], 'relType': 'hypernym', 'meta': None})
        elif d == 'cross-kind-target' and senses:
            # a synset relation pointing at a sense id (never a valid target), a sense relation pointing at an entry id
            rng.choice(syns).setdefault('relations', []).append({'target': rng.choice(senses)['id'], 'relType': rng.choice(['similar', 'hypernym']), 'meta': None})
            if ents and rng.random() < 0.5:
                rng.choice(senses).setdefault('relations', []).append({'target': rng.choice(ents)['id'], 'relType': 'also', 'meta': None})
        elif d == 'reltype-sweep' and len(syns) >= 2:
            # every documented relation name once (plus its reverse half of the time): none of them is an invalid type
            import pinned_tables as PT
            for nm in sorted(PT.SYNSET_RELATIONS):
                a_, b_ = rng.sample(syns, 2)
                a_.setdefault('relations', []).append({'target': b_['id'], 'relType': nm, 'meta': None})
                if nm in PT.REVERSE_RELATIONS and rng.random() < 0.5:
                    b_.setdefault('relations', []).append({'target': a_['id'], 'relType': PT.REVERSE_RELATIONS[nm], 'meta': None})
            if len(senses) >= 2:
                for nm in sorted(PT.SENSE_RELATIONS):
                    a_, b_ = rng.sample(senses, 2)
                    a_.setdefault('relations', []).append({'target': b_['id'], 'relType': nm, 'meta': None})
                for nm in sorted(PT.SENSE_SYNSET_RELATIONS):
                    rng.choice(senses).setdefault('relations', []).append({'target': rng.choice(syns)['id'], 'relType': nm, 'meta': None})
        elif d == 'lexid-clash':
            syns[0]['id'] = lx['id']
        elif d == 'no-pos':
            rng.choice(syns).pop('partOfSpeech', None)
    return lx, v


def expected(lx):
    """the documented conditions (module docstring of wn.validate), evaluated independently.
    Returns {code: (required ids, allowed contexts per id)}"""
    from pinned_tables import SENSE_RELATIONS, SENSE_SYNSET_RELATIONS, SYNSET_RELATIONS, REVERSE_RELATIONS
    from collections import Counter
    ents, syns = lx.get('entries', []), lx.get('synsets', [])
    senses = [(e, s) for e in ents for s in e.get('senses', [])]
    eids, sids, yids = [e['id'] for e in ents], [s['id'] for _, s in senses], [y['id'] for y in syns]
    srels = [(s, r) for _, s in senses for r in s.get('relations', [])]
    yrels = [(y, r) for y in syns for r in y.get('relations', [])]
    out = {}
    allids = [lx['id']] + [f['id'] for e in ents for f in e.get('forms', []) if f.get('id')] + \
        [f['id'] for f in lx.get('frames', []) if f.get('id')] + eids + sids + yids
    c = Counter(allids)
    out['E101'] = {i for i, n in c.items() if n > 1}
    out['W201'] = {e['id'] for e in ents if not e.get('senses')}
    out['W202'] = {s['id'] for e in ents for s in e.get('senses', []) if [t['synset'] for t in e.get('senses', [])].count(s['synset']) > 1}
    pairs = Counter((e['lemma']['writtenForm'], s['synset']) for e, s in senses)
    out['W203'] = {f for (f, y), n in pairs.items() if n > 1}
    out['E204'] = {s['id'] for _, s in senses if s['synset'] not in yids}
    used = {s['synset'] for _, s in senses}
    out['W301'] = {y['id'] for y in syns if y['id'] not in used}
    ic = Counter(y['ili'] for y in syns if y['ili'] and y['ili'] != 'in')
    out['W302'] = {y['id'] for y in syns if ic.get(y['ili'], 0) > 1}
    out['W303'] = {y['id'] for y in syns if y['ili'] == 'in' and not y.get('ili_definition')}
    out['W304'] = {y['id'] for y in syns if y['ili'] and y['ili'] != 'in' and y.get('ili_definition')}
    out['W305'] = {y['id'] for y in syns if any(d['text'].strip() == '' for d in y.get('definitions', []))}
    out['W306'] = {y['id'] for y in syns if any(d['text'].strip() == '' for d in y.get('examples', []))}
    dc = Counter(d['text'] for y in syns for d in y.get('definitions', []))
    out['W307'] = {y['id'] for y in syns if any(dc[d['text']] > 1 for d in y.get('definitions', []))}
    out['E401'] = {s['id'] for s, r in srels if r['target'] not in sids and r['target'] not in yids} | \
        {y['id'] for y, r in yrels if r['target'] not in yids}
    out['W402'] = {s['id'] for s, r in srels if (r['target'] in sids and r['relType'] not in SENSE_RELATIONS)
                   or (r['target'] in yids and r['relType'] not in SENSE_SYNSET_RELATIONS)} | \
        {y['id'] for y, r in yrels if r['relType'] not in SYNSET_RELATIONS}
    rc = Counter([(s['id'], r['relType'], r['target'], (r.get('meta') or {}).get('type')) for s, r in srels] +
                 [(y['id'], r['relType'], r['target'], (r.get('meta') or {}).get('type')) for y, r in yrels])
    out['W403'] = {k[0] for k, n in rc.items() if n > 1}
    regular = {(s['id'], r['relType'], r['target']) for s, r in srels if r['target'] in sids} | \
        {(y['id'], r['relType'], r['target']) for y, r in yrels}
    out['W404'] = {t for (s, ty, t) in regular if ty in REVERSE_RELATIONS and (t, REVERSE_RELATIONS[ty], s) not in regular}
    pos = {}
    for y in syns:
        pos.setdefault(y['id'], set()).add(y.get('partOfSpeech'))
    out['W501'] = {y['id'] for y, r in yrels if r['relType'] == 'hypernym' and r['target'] in pos
                   and any(y.get('partOfSpeech') != p for p in pos[r['target']])}
    w501_must = {y['id'] for y, r in yrels if r['relType'] == 'hypernym' and r['target'] in pos
                 and all(y.get('partOfSpeech') != p for p in pos[r['target']])}
    out['W502'] = {s['id'] for s, r in srels if s['id'] == r['target']} | {y['id'] for y, r in yrels if y['id'] == r['target']}
    return out, w501_must


def _impl(args):
    lx, v, selects, want_add, want_cli = args
    import wnenv
    wn = wnenv.wn
    from wn import validate as V
    res = {'reports': []}
    try:
        for sel in selects:
            try:
                rep = V.validate(copy.deepcopy(lx), select=sel, progress_handler=None)
                res['reports'].append({c: {'message': r['message'], 'items': r['items']} for c, r in rep.items()})
            except Exception as e:
                res['reports'].append({'exception': type(e).__name__ + ': ' + str(e)[:100]})
        if want_add:
            wnenv.fresh_db()
            try:
                wn.add_lexical_resource(docs.resource([copy.deepcopy(lx)], v), progress_handler=None)
                res['add'] = 'ok'
            except Exception as e:
                res['add'] = 'error:' + type(e).__name__
            res['installed'] = [l.id for l in wn.lexicons()]
        if want_cli:
            d = wnenv.workdir()
            f = d / 'v.xml'
            # the file ends with a lexicon nothing can be said about: the exit status speaks for the whole file
            trailer = {'id': 'v-okay', 'version': '1', 'label': 'nothing to report', 'language': 'en', 'email': 'a@b.c', 'license': 'L', 'meta': None}
            f.write_text(docs.to_xml(docs.resource([lx, trailer], v)), encoding='utf-8')
            p = subprocess.run([sys.executable, '-m', 'wn', '--dir', str(d / 'data'), 'validate', str(f)], cwd=wnenv.REPO,
                               stdout=subprocess.PIPE, stderr=subprocess.PIPE, text=True, timeout=120)
            res['cli'] = {'rc': p.returncode, 'out': p.stdout[-300:], 'err': p.stderr[-300:]}
            shutil.rmtree(d, ignore_errors=True)
        return res
    except Exception as e:
        import traceback
        return {'exception': repr(e), 'tb': traceback.format_exc()[-1000:]}
    finally:
        wnenv.cleanup()


def jsonable(x):
    return json.loads(json.dumps(x, default=str))


def judge(ctx, case, im, models):
    lx, v, selects, want_add, want_cli = case
    sc = {'lexicon': lx, 'lmf_version': v}
    if 'exception' in im:
        ctx.fail('validate-harness', sc, im)
        return
    exp, w501_must = expected(lx)
    for sel, rep, mo in zip(selects, im['reports'], models):
        where = {'select': sel}
        if 'exception' in rep:
            ctx.fail('validate-never-raises', sc, dict(where, **rep))
            continue
        want_codes = [c for c in ALL if c in sel or c[0] in sel]
        if list(rep) != want_codes:
            ctx.fail('report-contains-exactly-the-selected-checks', sc, dict(where, got=list(rep), expected=want_codes))
        items = {c: jsonable(r['items']) for c, r in rep.items()}
        if mo is not None and items != mo:
            bad = [c for c in items if items[c] != mo.get(c)]
            ctx.disagree(sc, {c: items[c] for c in bad[:2]}, {c: mo.get(c) for c in bad[:2]}, f'validate select={sel}')
        nontriv = any(items[c] for c in items)
        ctx.case((json.dumps(lx, sort_keys=True, default=str), tuple(sel)) if nontriv else None)
        for c in items:
            got = set(items[c])
            if c == 'W501':
                if not (w501_must <= got <= exp[c]):
                    ctx.fail(f'{c}-lists-exactly-the-entities-satisfying-its-condition', sc,
                             dict(where, missing=sorted(w501_must - got), spurious=sorted(got - exp[c])))
            elif got != exp[c]:
                ctx.fail(f'{c}-lists-exactly-the-entities-satisfying-its-condition', sc,
                         dict(where, missing=sorted(exp[c] - got), spurious=sorted(got - exp[c])))
            if items[c]:
                ctx.dist['reports:' + c] += 1
    if want_add:
        bad = bool(exp['E204'] or exp['E401'])
        if bad and im.get('add') == 'ok':
            ctx.fail('lexicon-with-E204-or-E401-is-rejected-by-add', sc, {'E204': sorted(exp['E204']), 'E401': sorted(exp['E401']), 'installed': im.get('installed')})
        if bad and im.get('installed'):
            ctx.fail('rejected-lexicon-leaves-nothing-installed', sc, {'installed': im.get('installed')})
    if want_cli and 'cli' in im:
        anyitem = any(exp[c] for c in ALL if c != 'W501') or bool(w501_must)
        rc = im['cli']['rc']
        if rc not in (0, 1) or (rc == 1) != anyitem:
            # W501 with ambiguous duplicate ids may legitimately go either way
            if not (exp['W501'] and not w501_must):
                ctx.fail('cli-exit-status-reflects-the-report', sc, {'cli': im['cli'], 'expected_failed': anyitem})


MATCHERS = {}


def process(ctx, cases):
    import multiprocessing as mp
    with mp.get_context('fork').Pool(min(12, max(1, len(cases)))) as pool:
        impls = pool.map(_impl, cases, chunksize=1)
    reqs = []
    for lx, v, selects, _, _ in cases:
        for sel in selects:
            reqs.append({'op': 'validate', 'lex': lx, 'select': sel})
    models = leanside.run_driver(reqs) if ctx.lean['driver_ok'] else [None] * len(reqs)
    i = 0
    for case, im in zip(cases, impls):
        n = len(case[2])
        judge(ctx, case, im, models[i:i + n])
        i += n


def gen_cases(ctx, n, ncli):
    cases = []
    for k in range(n):
        lx, v = gen_lexicon(ctx.rng, k)
        selects = [['E', 'W'], ['E'], ctx.rng.sample(ALL, ctx.rng.randint(1, 4)), ['W', 'E101'], []]
        cases.append((lx, v, selects, True, k < ncli))
    return cases


def run(ctx):
    cases = gen_cases(ctx, 60 if ctx.tier == 'quick' else 1500, 4 if ctx.tier == 'quick' else 30)
    process(ctx, cases)
    ctx.sample({'lexicon_ids': {'entries': [e['id'] for e in cases[-1][0]['entries']], 'synsets': [y['id'] for y in cases[-1][0]['synsets']]},
                'selections': cases[-1][2]})


def widen(ctx):
    process(ctx, gen_cases(ctx, 400, 0))


def replay(ctx, scenario):
    process(ctx, [(scenario['lexicon'], scenario.get('lmf_version', '1.1'), [['E', 'W']], True, False)])
