"""C16 — results are a function of database content and arguments only."""
import json
import os
import subprocess
import sys
import tempfile

import docs
import graphs as G
import leanside
import multi

PID = 'C16'
RULE = ('one evaluation = one generated database x one PYTHONHASHSEED: a child process builds the database and prints the transcript of a '
        'battery (every public query and navigation call for several selections, taxonomy, similarity, IC, lemmatized look-ups, validate, dump '
        'and export bytes), twice; transcripts are compared byte for byte between seeds and between the two repetitions; non-trivial = the '
        'database has a pair with >= 2 lowest common hypernyms, entry-level frames on >= 2 senses, or a target missing >= 2 reverse relations; '
        'distinct = distinct (database, seed)')
ASSUMPTIONS = ['SQLite returns rows in the same order for the same file and query (no hash seed involved): observed through the seed-to-seed comparison']


def gen(rng):
    W = multi.world(rng, '1.0', two_versions=False)
    a = W['a:1']
    # 1.0 entry-level frames over several senses (frame order in 1.0 exports)
    for e in a['entries']:
        ss = e.get('senses', [])
        if len(ss) >= 2 and 'frames' not in e:
            e['frames'] = [{'subcategorizationFrame': f'fr {e["id"]} X', 'senses': [ss[-1]['id']]},
                           {'subcategorizationFrame': f'fr {e["id"]} Y', 'senses': [s['id'] for s in ss]}]
    # one word whose sense has derivation links to the senses of several other words (order of derived_words())
    all_senses = [(e, s_) for e in a['entries'] for s_ in e.get('senses', [])]
    if len({e['id'] for e, _ in all_senses}) >= 3:
        src = all_senses[0][1]
        tg = [s_['id'] for e, s_ in all_senses if e is not all_senses[0][0]]
        rng.shuffle(tg)
        src.setdefault('relations', []).extend({'target': t_, 'relType': 'derivation', 'meta': None} for t_ in tg)
    # graph with two lowest common hypernyms of equal depth reached by paths of different length
    # (0 and 1 share {2, 3}); extra nodes hang below the core
    edges = [[0, 2, 'hypernym'], [0, 5, 'hypernym'], [5, 3, 'hypernym'], [1, 2, 'hypernym'], [1, 3, 'instance_hypernym'],
             [2, 4, 'hypernym'], [3, 4, 'hypernym']]
    n = 6 + rng.randint(1, 3)
    for x in range(6, n):
        for t in rng.sample(range(0, x), rng.randint(1, 3)):
            edges.append([x, t, 'hypernym'])
    rng.shuffle(edges)
    g = G.mk(n, edges)
    g['words'] = {f'w{i}': [i] for i in range(n)}
    g['words']['amb'] = [0, 1, 6]
    # a broken lexicon whose W404 has targets missing several reverse relations
    gb = docs.Gen(rng, hostile=0.0)
    broken = gb.lexicon('v', '1', '1.1', n_syn=5, n_ent=3)
    ys = broken['synsets']
    for y in ys[:3]:
        y.setdefault('relations', []).extend([{'target': ys[4]['id'], 'relType': t, 'meta': None} for t in ('hypernym', 'mero_part', 'causes', 'similar')])
    dumpres = docs.resource([docs.Gen(rng, hostile=0.2).lexicon('d', '1', '1.3')], '1.3')
    forms = [e['lemma']['writtenForm'] for e in a['entries']]
    queries = forms[:4] + [f + 's' for f in forms[:3]] + ['axes', 'wolves', 'nope', 'runs', 'lights']
    def ent(i, form, pos='n'):
        return {'id': f'm-{i}', 'meta': None, 'lemma': {'writtenForm': form, 'partOfSpeech': pos},
                'senses': [{'id': f'm-{i}-s', 'synset': f'm-ss-{i}', 'meta': None}]}
    names = ['axis', 'ax', 'axe', 'box', 'boxis']
    rng.shuffle(names)
    m = {'id': 'm', 'version': '1', 'label': 'morph', 'language': 'en', 'email': 'a@b.c', 'license': 'L', 'meta': None,
         'entries': [ent(nm, nm) for nm in names],
         'synsets': [{'id': f'm-ss-{nm}', 'ili': '', 'partOfSpeech': 'n', 'meta': None} for nm in names]}
    # one word with derivation links to every other word of the lexicon, declared in shuffled order
    tg_ = [f'm-{nm}-s' for nm in names[1:]]
    rng.shuffle(tg_)
    m['entries'][0]['senses'][0]['relations'] = [{'target': t_, 'relType': 'derivation', 'meta': None} for t_ in tg_]
    # homographs in the parts of speech Morphy has no rules for (conjunction, adposition, phrase, unknown, other)
    others = ['c', 'p', 't', 'u', 'x']
    rng.shuffle(others)
    m['entries'] += [ent(f'but-{p_}', 'but', p_) for p_ in others]
    m['synsets'] += [{'id': f'm-ss-but-{p_}', 'ili': '', 'partOfSpeech': p_, 'meta': None} for p_ in others]
    # lexicons with several declared dependencies: the default expand set and its order
    gd = docs.Gen(rng, hostile=0.0, rich=0.2)
    provs = [gd.lexicon(f'p{i}', '1', '1.1', n_syn=2, n_ent=1, ili_pool=['i1', 'i2', 'i3']) for i in range(5)]
    dx = gd.lexicon('dx', '1', '1.1', n_syn=3, n_ent=1, ili_pool=['i1', 'i2', 'i3'], lang='de',
                    requires=[{'id': f'p{i}', 'version': '1'} for i in (3, 0, 2)])
    dy = gd.lexicon('dy', '1', '1.1', n_syn=2, n_ent=1, ili_pool=['i1', 'i2', 'i3'], lang='de',
                    requires=[{'id': f'p{i}', 'version': '1'} for i in (4, 2, 1)] + [{'id': 'absent', 'version': '0'}])
    # a lexicon without relations whose taxonomy is borrowed from an expand lexicon; several of the borrowed
    # hypernyms have no counterpart in it, so that more than one placeholder synset is a common hypernym
    def syn(lex, k, ili, hyps=()):
        return {'id': f'{lex}-{k}', 'ili': ili, 'partOfSpeech': 'n', 'meta': None,
                'relations': [{'target': f'{lex}-{h}', 'relType': 'hypernym', 'meta': None} for h in hyps]}
    tops = ['t%d' % i for i in range(rng.randint(2, 4))]
    xe = {'id': 'xe', 'version': '1', 'label': 'expand', 'language': 'en', 'email': 'a@b.c', 'license': 'L', 'meta': None,
          'synsets': [syn('xe', 'p', 'j1', tops), syn('xe', 'q', 'j2', tops)] + [syn('xe', t_, 'j-' + t_, ['root']) for t_ in tops] + [syn('xe', 'root', 'j-root')]}
    xl = {'id': 'xl', 'version': '1', 'label': 'local', 'language': 'de', 'email': 'a@b.c', 'license': 'L', 'meta': None,
          'synsets': [syn('xl', 'p', 'j1'), syn('xl', 'q', 'j2')] + ([syn('xl', 'root', 'j-root')] if rng.random() < 0.5 else [])}
    # a second version of the local lexicon with the same synset ids and ILIs (its root always present): stored
    # synsets that tie on id and ILI are common hypernyms of the same pair
    import copy
    xl2 = copy.deepcopy(xl)
    xl2['version'] = '2'
    if not any(y['id'] == 'xl-root' for y in xl2['synsets']):
        xl2['synsets'].append(syn('xl', 'root', 'j-root'))
    return {'resources': [docs.resource([W['a:1'], W['e:1'], W['b:1'], m], '1.0'), docs.resource(provs + [dx, dy, xe, xl, xl2], '1.1')],
            'graph': g, 'corpus': ['w0', 'w1', 'amb', 'amb', 'w2', 'zzz'], 'broken': broken, 'dumpres': dumpres, 'queries': queries,
            'selections': [{}, {'lexicon': 'a:1'}, {'lexicon': 'b:1', 'expand': 'e:1'}, {'lexicon': 'b:1', 'expand': ''}, {'lang': 'en'}, {'lang': 'de'}]}


def run_child(path, seed):
    env = dict(os.environ, PYTHONHASHSEED=str(abs(seed)))
    # a negative seed asks for the same battery with the selections visited in reverse order
    p = subprocess.run([sys.executable, str(leanside.ROOT / 'harness' / 'seedbattery.py'), path] + (['reversed'] if seed < 0 else []), env=env,
                       stdout=subprocess.PIPE, stderr=subprocess.PIPE, text=True, timeout=900)
    if p.returncode != 0:
        return {'error': p.stderr[-1500:]}
    return json.loads(p.stdout.strip().splitlines()[-1])


def first_diff(a, b):
    """first difference including the order of mapping keys"""
    ja, jb = json.loads(a), json.loads(b)

    def go(x, y, path):
        if type(x) != type(y):
            return path, x, y
        if isinstance(x, dict):
            if list(x) != list(y):
                return path + '.<key order>', list(x), list(y)
            for k in x:
                r = go(x[k], y[k], f'{path}.{k}')
                if r:
                    return r
            return None
        if isinstance(x, list):
            if len(x) != len(y):
                return path + '.len', x, y
            for i, (u, v) in enumerate(zip(x, y)):
                r = go(u, v, f'{path}[{i}]')
                if r:
                    return r
            return None
        return None if x == y else (path, x, y)
    return go(ja, jb, '')


def process(ctx, scs, seeds):
    from concurrent.futures import ThreadPoolExecutor
    jobs = []
    tmp = tempfile.mkdtemp(prefix='wnverif-c16-')
    try:
        for k, sc in enumerate(scs):
            path = os.path.join(tmp, f'sc{k}.json')
            with open(path, 'w') as f:
                json.dump(sc, f)
            for s in seeds:
                jobs.append((k, s, path))
        with ThreadPoolExecutor(max_workers=14) as ex:
            results = list(ex.map(lambda j: run_child(j[2], j[1]), jobs))
        by = {}
        for (k, s, _), r in zip(jobs, results):
            by.setdefault(k, []).append((s, r))
        for k, lst in by.items():
            sc = scs[k]
            ref_seed, ref = lst[0]
            for s, r in lst:
                ctx.case((k, s, json.dumps(sc['graph']['edges'])))
                ctx.dist[f'seed={s}'] += 1
                if 'error' in r:
                    ctx.fail('battery-runs', {'seed': s, 'scenario': sc}, r)
                    continue
                if r.get('caller_mutation_bad'):
                    ctx.fail('an-answer-does-not-change-when-the-caller-modifies-a-list-returned-earlier', {'seed': s, 'scenario': sc},
                             {'[word, [lemma, forms] before, after]': r['caller_mutation_bad']})
                if r.get('one_object_bad'):
                    ctx.fail('a-reused-Wordnet-object-answers-like-a-fresh-one(earlier-read-only-queries-leave-no-trace)',
                             {'seed': s, 'scenario': sc}, {'calls [method, arguments, reused, fresh]': r['one_object_bad']})
                if not r['repeat_equal']:
                    ctx.fail('repeated-calls-in-one-process-give-identical-results', {'seed': s, 'scenario': sc}, {})
                if 'error' not in ref and r['first'] != ref['first']:
                    d = first_diff(ref['first'], r['first'])
                    ctx.fail('identical-across-PYTHONHASHSEED-values', {'seeds': [ref_seed, s], 'scenario': sc},
                             {'path': d[0] if d else '?', f'seed{ref_seed}': d[1] if d else None, f'seed{s}': d[2] if d else None})
    finally:
        import shutil
        shutil.rmtree(tmp, ignore_errors=True)


MATCHERS = {}


def run(ctx):
    scs = [gen(ctx.rng) for _ in range(3 if ctx.tier == 'quick' else 12)]
    seeds = [0, 1, 2, 3, -1] if ctx.tier == 'quick' else list(range(16)) + [-1, -2]
    process(ctx, scs, seeds)
    ctx.sample({'graph': scs[-1]['graph'], 'selections': scs[-1]['selections'], 'seeds': seeds, 'queries': scs[-1]['queries']})


def widen(ctx):
    process(ctx, [gen(ctx.rng) for _ in range(6)], list(range(8)))


def replay(ctx, scenario):
    sc = scenario.get('scenario', scenario)
    process(ctx, [sc], scenario.get('seeds', [0, 1, 2, 3, 4, 5]))
