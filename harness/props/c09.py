"""C09 — word-form search follows the documented exact / normalized / lemmatized procedure."""
import json

import docs
import leanside
import lookup
import multi
import store
from props.c17 import SPEC_RULES, SUFFIXES

PID = 'C09'
RULE = ('one evaluation = one call of words/senses/synsets(form, pos) for a (lexicon, query, pos, normalizer on/off, search_all_forms on/off, '
        'lemmatizer in {none, custom table, Morphy uninitialised, Morphy initialised}) combination, compared with the Lean model of _find_helper / '
        'find_* and with the documented two-stage procedure evaluated on the document; non-trivial = the query is found only through the '
        'normalized column, the back-off, a non-lemma form or a lemmatizer proposal; distinct = distinct combination')
ASSUMPTIONS = ['normalize_form (lower + NFKD without combining marks) is a parameter of the model; the harness supplies its table for the strings of the scenario',
               'no duplicate check on order: the statement fixes no result order']

FORMS = ['wolf', 'Wolf', 'WOLF', 'wolves', 'résumé', 'resume', 'Résumé', 'RESUME', 'naïve', 'naive', 'San José', 'san jose', 'San Jose',
         'water bottle', 'Water Bottle', '水筒', 'ÅNGSTRÖM', 'angstrom', 'run', 'runs', 'ran', 'light', 'lights', 'Lights', 'go', 'went',
         'İstanbul', 'istanbul', 'ß', 'ss', 'ǆ',
         # marks of category Mn whose canonical combining class is 0 (Devanagari / Thai vowel signs) are letters
         # of the word, not diacritics: the documented normalisation (lower, NFKD, combining marks dropped) keeps them
         'कुल', 'कल', 'कूल', 'กิน', 'กน']
QUERIES = FORMS + ['wolfs', 'Wolves', 'WOLVES', 'resumes', 'Resumes', 'lighter', 'nope', 'san josé', 'SAN JOSE', 'water  bottle', 'ﬁne', 'fine', '', ' ']


def gen(rng):
    g = docs.Gen(rng, hostile=0.0, rich=0.3)
    a = g.lexicon('a', '1', '1.1', n_syn=3, n_ent=rng.randint(4, 8), lang='en', forms_pool=FORMS)
    for e in a['entries']:
        if rng.random() < 0.5:
            seen = {(e['lemma']['writtenForm'], None)} | {(f['writtenForm'], f.get('script')) for f in e.get('forms', [])}
            extra = rng.choice(FORMS)
            if (extra, None) not in seen:
                e.setdefault('forms', []).append({'writtenForm': extra})
        if not e.get('senses'):
            e['senses'] = [{'id': e['id'] + '-s0', 'synset': a['synsets'][0]['id'], 'meta': None}]
    # two lemmas that differ only in case, the lower-case one stored first: both are found by the lower-case query
    low, var = rng.choice([('wolf', 'Wolf'), ('wolf', 'WOLF'), ('resume', 'RESUME'), ('lights', 'Lights'), ('san jose', 'San Jose'),
                           ('water bottle', 'Water Bottle'), ('angstrom', 'ANGSTROM')])
    forced = []
    if len(a['entries']) >= 2 and rng.random() < 0.7:
        i = rng.randrange(len(a['entries']) - 1)
        for e, w in ((a['entries'][i], low), (a['entries'][i + 1], var)):
            e['lemma']['writtenForm'] = w
            e['forms'] = [f for f in e.get('forms', []) if f['writtenForm'] != w]
        forced = [low, var]
    # a lemma reachable only by "lemmatize, then normalize": stored 'box', asked for as 'Boxes'
    lem_then_norm = False
    if a['entries'] and rng.random() < 0.6:
        e = a['entries'][-1]
        e['lemma']['writtenForm'] = 'box'
        e['lemma']['partOfSpeech'] = 'n'
        e['forms'] = [f for f in e.get('forms', []) if f['writtenForm'].lower() not in ('box', 'boxes')]
        lem_then_norm = True
    other = g.lexicon('o', '1', '1.1', n_syn=2, n_ent=3, lang='en', forms_pool=FORMS)
    table = {}
    for q in rng.sample(QUERIES, 6):
        props = []
        for _ in range(rng.randint(0, 2)):
            props.append([rng.choice([None, 'n', 'v', 'a']), rng.sample(FORMS, rng.randint(1, 2))])
        # a dict cannot hold one pos twice
        seen = set()
        props = [p for p in props if not (p[0] in seen or seen.add(p[0]))]
        table[q] = props
    # a second version of the same lexicon: every entity id occurs in two selected lexicons
    import copy
    a2 = copy.deepcopy(a)
    a2['version'] = '2'
    for e in a2['entries']:
        if rng.random() < 0.3:
            e['lemma']['writtenForm'] = rng.choice(FORMS)
            e['forms'] = [f for f in e.get('forms', []) if f['writtenForm'] != e['lemma']['writtenForm']]
    ops = [multi.add_op({'a:1': a, 'o:1': other, 'a:2': a2}, ['a:1', 'o:1', 'a:2'], '1.1')]
    extra = set()
    for n_ in range(40):
        q = forced[n_] if n_ < len(forced) else rng.choice(QUERIES)
        op = {'k': 'find', 'lexicon': rng.choice(['a:1', 'a:1', 'a:1 o:1', 'a:1 a:2', 'a:2 a:1 o:1', 'a:2', 'a:2 o:1']), 'form': q, 'pos': rng.choice([None, None, 'n', 'v', 'a', 'x']),
              'normalizer': rng.random() < 0.7, 'all_forms': rng.random() < 0.7,
              'lemmatizer': rng.choice([None, None, table, 'morphy', 'morphy_init'])}
        if n_ < len(forced):
            op.update({'normalizer': True, 'pos': None, 'lemmatizer': None})
        elif lem_then_norm and n_ in (len(forced), len(forced) + 1):
            op.update({'form': rng.choice(['Boxes', 'BOXES']), 'normalizer': True, 'pos': rng.choice([None, 'n']),
                       'lemmatizer': 'morphy' if n_ == len(forced) else {'Boxes': [['n', ['Box']]], 'BOXES': [['n', ['BOX', 'nope']]]}})
            q = op['form']
            extra.update(['Box', 'BOX', 'nope', 'box'])
        ops.append(op)
        extra.add(q)
        for rules in SPEC_RULES.values():
            for suf, repl in rules:
                if q.endswith(suf) and len(suf) < len(q):
                    extra.add(q[:len(q) - len(suf)] + repl)
    for props in table.values():
        for p, fs in props:
            extra.update(fs)
    return {'ops': ops, 'extra_forms': sorted(extra)}


def judge(ctx, sc, im):
    docs_ = {f"{lx['id']}:{lx['version']}": lx for lx in sc['ops'][0]['res']['lexicons']}
    import wnenv
    for k, op in enumerate(sc['ops']):
        if op['k'] != 'find':
            continue
        got = im[k]
        if got == 'error':
            ctx.fail('lookup-does-not-raise', sc, {'op': op})
            continue
        S = op['lexicon'].split()
        entries = [dict(e, _lex=s) for s in S for e in docs_[s].get('entries', [])]
        # every found sense leads to the word it was declared under, every member of a found synset to its own word:
        # entries of the selected lexicons, with their own forms
        owner = {(e['_lex'], sn['id']): e for e in entries for sn in e.get('senses', [])}
        members = {}
        for e in entries:
            for sn in e.get('senses', []):
                members.setdefault((e['_lex'], sn['synset']), []).append(e)

        def wexp(e):
            return [e['_lex'], e['id'], [e['lemma']['writtenForm']] + [ff['writtenForm'] for ff in e.get('forms', [])]]
        ambiguous = len({x.split(':')[0] for x in S}) < len(S)      # two selected lexicons share their ids: finding F5
        for lx_, sid, wr in ([] if ambiguous else got.get('_sense_words', [])):
            e = owner.get((lx_, sid))
            if e is not None and wr != wexp(e):
                ctx.fail('a-found-sense-leads-to-the-word-it-was-declared-under(with-that-word\'s-forms)', sc,
                         {'op': op, 'sense': [lx_, sid], 'word()': wr, 'expected': wexp(e)})
                break
        for lx_, yid, wrs in ([] if ambiguous else got.get('_synset_words', [])):
            exp_w = sorted(json.dumps(wexp(e)) for e in members.get((lx_, yid), []))
            if (lx_, yid) in members and sorted(json.dumps(x) for x in wrs) != exp_w:
                ctx.fail('the-members-of-a-found-synset-lead-to-their-own-words', sc,
                         {'op': op, 'synset': [lx_, yid], 'words': wrs, 'expected': [json.loads(x) for x in exp_w]})
                break
        lem = op.get('lemmatizer')
        if lem is None:
            lemf = None
        elif isinstance(lem, dict):
            lemf = (lambda t: (lambda form, pos=None: {p: set(fs) for p, fs in t.get(form, [])}))(lem)
        else:
            lemf = morphy_oracle(lem == 'morphy_init', entries)
        exp = lookup.find_entries(entries, op['form'], op['pos'], op['normalizer'], lemf, op['all_forms'])
        exp_words = sorted([e['_lex'], e['id']] for e in exp)
        exp_senses = sorted(list(x) for x in lookup.find_senses(entries, op['form'], op['pos'], op['normalizer'], lemf, op['all_forms']))
        spos = {(s_, y['id']): y.get('partOfSpeech') for s_ in S for y in docs_[s_].get('synsets', [])}
        exp_syn = sorted(lookup.find_synsets(entries, spos, op['form'], op['pos'], op['normalizer'], lemf, op['all_forms']))
        where = {a: v for a, v in op.items() if a not in ('k',)}
        if len(got['words']) != len({tuple(x) for x in got['words']}) or len(got['senses']) != len({tuple(x) for x in got['senses']}) \
                or len(got['synsets']) != len({tuple(x) for x in got['synsets']}):
            ctx.fail('results-contain-no-duplicates', sc, dict(where, got=got))
        if sorted(got['words']) != exp_words:
            ctx.fail('words(form,pos)=documented-procedure', sc, dict(where, got=sorted(got['words']), expected=exp_words))
        if sorted(got['senses']) != exp_senses:
            ctx.fail('senses(form,pos)=documented-procedure', sc, dict(where, got=sorted(got['senses']), expected=exp_senses))
        if sorted(map(tuple, got['synsets'])) != exp_syn:
            ctx.fail('synsets(form,pos)=documented-procedure', sc, dict(where, got=sorted(got['synsets']), expected=[list(x) for x in exp_syn]))
        # non-trivial: not found by plain exact lemma match
        plain = lookup.match_entries(entries, [op['form']], op['pos'], False, False)
        ctx.case((k, json.dumps(where, sort_keys=True, ensure_ascii=False)) if (exp and not plain) else None)
        ctx.dist['lemmatizer=' + (lem if isinstance(lem, str) else ('table' if lem else 'none'))] += 1
        ctx.dist['found' if exp else 'not-found'] += 1


def morphy_oracle(init, entries):
    """Morphy by its documentation, evaluated on the document (C17 ties it to the code)"""
    words = [(e['lemma']['partOfSpeech'], [e['lemma']['writtenForm']] + [f['writtenForm'] for f in e.get('forms', [])]) for e in entries]

    def lem(form, pos=None):
        res = {}
        if not init:
            res[pos] = {form}
        plist = ['n', 'v', 'a', 'r', 's'] if pos is None else ([pos] if pos in SPEC_RULES else [])
        nopos = res.get(None, set())
        for p in plist:
            lemmas = {fs[0] for pp, fs in words if pp == p}
            c = set()
            if init:
                if form in lemmas:
                    c.add(form)
                c |= {fs[0] for pp, fs in words if pp == p and form in fs[1:]}
            for suf, repl in SPEC_RULES[p]:
                if form.endswith(suf) and len(suf) < len(form):
                    cand = form[:len(form) - len(suf)] + repl
                    if not init or cand in lemmas:
                        c.add(cand)
            c -= nopos
            if c:
                res.setdefault(p, set()).update(c)
        return res
    return lem


MATCHERS = {}


def process(ctx, scs):
    impls, models = multi.execute(ctx, scs)
    for sc, im, mo in zip(scs, impls, models):
        if isinstance(im, dict):
            ctx.fail('scenario-runs', sc, im)
            continue
        if mo is not None:
            for k, (op, oi, om) in enumerate(zip(sc['ops'], im, mo)):
                if op['k'] == 'find':
                    ci = {a: sorted(map(tuple, b)) for a, b in oi.items() if not a.startswith('_')} if isinstance(oi, dict) else oi
                    cm = {a: sorted(map(tuple, b)) for a, b in om.items() if not a.startswith('_')} if isinstance(om, dict) else om
                    if ci != cm:
                        ctx.disagree(sc, oi, om, 'find ' + json.dumps({a: v for a, v in op.items() if a != 'k'}, ensure_ascii=False)[:300])
                        break
        judge(ctx, sc, im)
    return impls


def run(ctx):
    scs = [gen(ctx.rng) for _ in range(12 if ctx.tier == 'quick' else 200)]
    process(ctx, scs)
    sc = scs[-1]
    ctx.sample({'forms_of_a:1': [[e['lemma']['partOfSpeech'], e['lemma']['writtenForm']] + [f['writtenForm'] for f in e.get('forms', [])]
                                 for e in sc['ops'][0]['res']['lexicons'][0]['entries']],
                'queries': [{a: (v if not isinstance(v, dict) else 'table') for a, v in op.items() if a != 'k'} for op in sc['ops'][1:5]]})


def widen(ctx):
    process(ctx, [gen(ctx.rng) for _ in range(80)])


def replay(ctx, scenario):
    process(ctx, [scenario])
