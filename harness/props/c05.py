"""C05 — database content depends only on which lexicons are installed."""
import json
import shutil

import docs
import leanside
import store
from props import c01

PID = 'C05'
RULE = ('one evaluation = one history (sequence of add / remove (incl. star patterns) / add-ILI-file over a universe of related '
        'lexicons: base, extension, extension of the extension, a dependant, a second version of the base id, an unrelated one) '
        'executed on the real library and on the Lean relational model, observed after every step; the final observation is compared '
        'with a fresh database holding only the installed lexicons, and the SQLite file is audited (foreign_key_check, integrity_check, '
        'ownership of every row); non-trivial = the history contains a removal that takes effect and a later add; distinct = distinct history')
ASSUMPTIONS = [
    'per lexicon comparison; the shared ILI inventory (status / definition of ILIs) is masked as the statement sets it aside',
    'the installed set is read from wn.lexicons() of the library itself; the fresh database is built by adding the documents of exactly those lexicons in their installation order',
]


def universe(rng):
    g = docs.Gen(rng, hostile=0.15, rich=0.55)
    v = rng.choice(['1.1', '1.3'])
    a1 = g.lexicon('a', '1', v, n_syn=rng.randint(2, 4), n_ent=rng.randint(2, 4))
    ax = g.extension('ax', a1, '1', v, with_forms=rng.random() < 0.6)
    axx = g.extension('axx', ax, '1', v)
    a2 = g.lexicon('a', '2', v, n_syn=rng.randint(1, 3), n_ent=rng.randint(1, 3))     # same id prefix: ids repeat across versions
    d = g.lexicon('d', '1', v, n_syn=2, n_ent=2, requires=[{'id': 'a', 'version': '1'}, {'id': 'u', 'version': '9'}])
    u = g.lexicon('u', '1', rng.choice(['1.0', '1.1']), n_syn=2, n_ent=2)
    return {'a:1': (a1, v), 'ax:1': (ax, v), 'axx:1': (axx, v), 'a:2': (a2, v), 'd:1': (d, v), 'u:1': (u, u and (rng.choice(['1.0']) if False else '1.1'))}


BASE_OF = {'ax:1': 'a:1', 'axx:1': 'ax:1'}


def gen_history(rng, maxlen):
    U = universe(rng)
    specs = list(U)
    ops = []
    n = rng.randint(3, maxlen)
    inst = []          # approximate installed set, to steer the history towards effective steps
    for _ in range(n):
        r = rng.random()
        if r < 0.55 or not inst:
            cands = [s for s in specs if s not in inst and (s not in BASE_OF or BASE_OF[s] in inst)]
            if rng.random() < 0.2 or not cands:
                cands = specs                      # redundant adds / extensions without base
            chosen = rng.sample(cands, min(len(cands), rng.choice([1, 1, 1, 2])))
            v = '1.3' if any(U[s][1] == '1.3' for s in chosen) else '1.1'
            ops.append({'k': 'add', 'res': docs.resource([U[s][0] for s in chosen], v)})
            before = list(inst)
            for s in chosen:
                if s not in before and (s not in BASE_OF or BASE_OF[s] in before):
                    inst.append(s)
        elif r < 0.9:
            pats = list(inst) + ['a:*', '*:1', 'a', 'ax', 'a*', 'zz:1', '*', 'a:1 u:1']
            if inst and rng.random() < 0.4:
                pats = [inst[-1]]                  # remove the most recently added: forces rowid reuse
            spec = rng.choice(pats)
            ops.append({'k': 'remove', 'spec': spec})
            rm_op = ops[-1]
            gone = set()
            for s in inst:
                i, v = s.split(':')
                for pat in spec.split():
                    if pat in ('*', s, i + ':*', '*:' + v, i) or (pat == 'a*' and i.startswith('a')):
                        gone.add(s)
            changed = True
            while changed:
                changed = False
                for s in inst:
                    if s in BASE_OF and BASE_OF[s] in gone and s not in gone:
                        gone.add(s)
                        changed = True
            inst = [s for s in inst if s not in gone]
            rm_op['gone'] = sorted(gone)
        else:
            rows = []
            for i in rng.sample(range(1, 9), rng.randint(1, 4)):
                row = {'ili': f'i{i}'}
                if rng.random() < 0.8:
                    row['status'] = rng.choice(['active', 'provisional', 'deprecated'])
                    if rng.random() < 0.7:
                        row['definition'] = rng.choice(['an ili definition', 'another one', ''])
                rows.append(row)
            ops.append({'k': 'ili', 'rows': rows})
        ops.append({'k': 'obs'})
    if rng.random() < 0.35:
        # a base, its extension (with forms, senses, examples … on external entries), and the extension removed again
        for s in ('a:1', 'ax:1'):
            if s not in inst:
                ops.append({'k': 'add', 'res': docs.resource([U[s][0]], U[s][1])})
                inst.append(s)
        ops.append({'k': 'obs'})
        gone = [s for s in ('ax:1', 'axx:1') if s in inst]
        ops.append({'k': 'remove', 'spec': 'ax:1', 'gone': sorted(gone)})
        inst = [s for s in inst if s not in gone]
        ops.append({'k': 'obs'})
    if rng.random() < 0.4:
        # one file: the extension of a:1 first, then a:2, which uses the same entity ids as a:1
        if 'a:1' not in inst:
            ops.append({'k': 'add', 'res': docs.resource([U['a:1'][0]], U['a:1'][1])})
            inst.append('a:1')
            ops.append({'k': 'obs'})
        if 'ax:1' not in inst and 'a:2' not in inst:
            ops.append({'k': 'add', 'res': docs.resource([U['ax:1'][0], U['a:2'][0]], U['ax:1'][1])})
            inst += ['ax:1', 'a:2']
            ops.append({'k': 'obs'})
            if rng.random() < 0.5:
                ops.append({'k': 'remove', 'spec': 'a:1', 'gone': sorted(s for s in ('a:1', 'ax:1', 'axx:1') if s in inst)})
                inst = [s for s in inst if s not in ('a:1', 'ax:1', 'axx:1')]
                ops.append({'k': 'obs'})
    if rng.random() < 0.35:
        # one resource with two lexicons supplied in memory, one of them removed, the same resource supplied again
        pair = [s for s in ('u:1', 'd:1')]
        v2 = '1.3' if any(U[s][1] == '1.3' for s in pair) else '1.1'
        both = {'k': 'add', 'res': docs.resource([U[s][0] for s in pair], v2), '_mem': True}
        ops.append(dict(both))
        for s in pair:
            if s not in inst:
                inst.append(s)
        ops.append({'k': 'obs'})
        ops.append({'k': 'remove', 'spec': 'u:1', 'gone': ['u:1']})
        inst = [s for s in inst if s != 'u:1']
        ops.append({'k': 'obs'})
        ops.append(dict(both))
        inst.append('u:1')
        ops.append({'k': 'obs'})
    for op in ops:
        if op['k'] == 'add' and len(op['res']['lexicons']) >= 2 and rng.random() < 0.4:
            op['_mem'] = True
    for op in ops[1:]:
        if op['k'] in ('remove', 'add') and rng.random() < 0.25:
            op['_reconnect'] = True          # the history continues in a new session on the same file
    return {'ops': ops, 'batch': rng.choice([None, 2, 5])}


def _tok_clear(t):
    """specifier tokens whose meaning is fixed by the statement alone: '*', 'id:version', 'id:*', '*:version'"""
    if t == '*':
        return True
    if t.count(':') != 1:
        return False
    i, v = t.split(':')
    return all(x == '*' or (x and not any(c in x for c in '*?[')) for x in (i, v))


def _tok_match(t, s):
    if t == '*':
        return True
    (ti, tv), (i, v) = t.split(':'), s.split(':')
    return ti in ('*', i) and tv in ('*', v)


def mask_ili(obs):
    obs = json.loads(json.dumps(obs))
    for o in obs:
        for y in o['scope']['synsets']:
            if isinstance(y['ili'], dict) and y['ili'].get('id') is not None:
                y['ili'] = {'id': y['ili']['id']}
        o['scope']['ilis'] = sorted([i[0] for i in o['scope']['ilis'] if i[0] is not None]) + \
            sorted([json.dumps(i) for i in o['scope']['ilis'] if i[0] is None])
    return obs


def _impl(args):
    """history on the real library + raw audit + fresh-database comparison"""
    sc = args
    import wnenv
    wn = wnenv.wn
    try:
        outs = store.run_ops_impl(wn, wnenv, sc, sc.get('batch'))
        final = store.obs_all(wn)
        installed = [f'{l.id}:{l.version}' for l in wn.lexicons()]
        conn = wn._db.connect()
        audit = {'fk': conn.execute('PRAGMA foreign_key_check').fetchall(),
                 'integrity': conn.execute('PRAGMA integrity_check').fetchall()}
        lexrows = {r[0] for r in conn.execute('SELECT rowid FROM lexicons')}
        orphans = {}
        for t in ('entries', 'forms', 'synsets', 'senses', 'synset_relations', 'sense_relations', 'sense_synset_relations',
                  'definitions', 'synset_examples', 'sense_examples', 'counts', 'syntactic_behaviours'):
            n = conn.execute(f'SELECT count(*) FROM {t} WHERE lexicon_rowid NOT IN (SELECT rowid FROM lexicons)').fetchone()[0]
            if n:
                orphans[t] = n
        for t, col, parent in (('pronunciations', 'form_rowid', 'forms'), ('tags', 'form_rowid', 'forms'),
                               ('adjpositions', 'sense_rowid', 'senses'), ('proposed_ilis', 'synset_rowid', 'synsets'),
                               ('syntactic_behaviour_senses', 'sense_rowid', 'senses'),
                               ('lexicon_dependencies', 'dependent_rowid', 'lexicons'),
                               ('lexicon_extensions', 'extension_rowid', 'lexicons')):
            n = conn.execute(f'SELECT count(*) FROM {t} WHERE {col} NOT IN (SELECT rowid FROM {parent})').fetchone()[0]
            if n:
                orphans[t] = n
        audit['orphans'] = orphans
        # installation order = rowid order of the live lexicon rows
        # fresh database with the installed lexicons only
        docs_by_spec = {}
        for op in sc['ops']:
            if op['k'] == 'add':
                for lx in op['res']['lexicons']:
                    docs_by_spec.setdefault(f"{lx['id']}:{lx['version']}", (lx, op['res']['lmf_version']))
        fresh_sc = {'ops': [{'k': 'add', 'res': docs.resource([docs_by_spec[s][0]], docs_by_spec[s][1])} for s in installed] + [{'k': 'obs'}]}
        fresh_outs = store.run_ops_impl(wn, wnenv, fresh_sc, None)
        return {'outs': outs, 'final': final, 'installed': installed, 'audit': audit, 'fresh': fresh_outs[-1],
                'fresh_ok': [o.get('ok') for o in fresh_outs[:-1]]}
    except Exception as e:
        import traceback
        return {'exception': repr(e), 'tb': traceback.format_exc()[-1500:]}
    finally:
        wnenv.cleanup()


def residue_tags(sc, installed):
    """tags / pronunciations that lexicons no longer installed attached to external lemmas / forms"""
    out = []
    # extensions that were removed at some point of the history (even if re-added later: the rows
    # written by the removed instance are still there and the re-added instance writes them again)
    removed_once = set()
    for op in sc['ops']:
        if op['k'] == 'remove':
            removed_once |= set(op.get('gone', []))
    for op in sc['ops']:
        if op['k'] != 'add':
            continue
        for lx in op['res']['lexicons']:
            spec = f"{lx['id']}:{lx['version']}"
            if not lx.get('extends') or (spec in installed and spec not in removed_once):
                continue
            for e in lx.get('entries', []):
                if not e.get('external'):
                    continue
                for f in ([e['lemma']] if e.get('lemma') else []) + [f for f in e.get('forms', []) if f.get('external')]:
                    out += [json.dumps(['tag', t['text'], t['category']]) for t in f.get('tags', [])]
                    out += [json.dumps(['pron'] + store._pron(p)) for p in f.get('pronunciations', [])]
    return out


def judge(ctx, sc, im, mo):
    if 'exception' in im:
        ctx.fail('history-runs-without-unexpected-exception', sc, im)
        return
    store.judge_routes(ctx, sc, im['outs'])
    # correspondence with the model, step by step
    if mo is not None:
        for k, (op, oi, om) in enumerate(zip(sc['ops'], im['outs'], mo)):
            if op['k'] == 'obs':
                d = c01.diff(store.canon_obs(oi, True), store.canon_obs(om, True))
                if d:
                    ctx.disagree(sc, d[1], d[2], f'step[{k}].obs{d[0]}')
                    break
            elif oi.get('ok') != om.get('ok'):
                ctx.disagree(sc, oi, om, f'step[{k}].{op["k"]}.ok')
                break
    # "removing a lexicon removes it together with all of its extensions … leaves every other lexicon":
    # judged on the library's own lexicon listing before / after each effective removal, for the
    # specifier tokens whose meaning does not depend on the installation order
    before = []
    pending = None
    pending_add = None
    for op, oi in zip(sc['ops'], im['outs']):
        if op['k'] == 'obs':
            now = [o['spec'] for o in oi] if isinstance(oi, list) else None
            if pending_add is not None and now is not None:
                # a successful add installs every lexicon of the resource that was not installed yet and whose
                # base (for an extension) was installed before the call; "the same lexicon can be added again"
                want = []
                for lx in pending_add['res']['lexicons']:
                    sp_ = f"{lx['id']}:{lx['version']}"
                    if lx.get('extends') and f"{lx['extends']['id']}:{lx['extends']['version']}" not in before:
                        continue
                    want.append(sp_)
                lacking = [s_ for s_ in want if s_ not in now]
                if lacking:
                    ctx.fail('a-successful-add-installs-every-lexicon-of-the-resource-that-can-be-installed', sc,
                             {'resource': [f"{lx['id']}:{lx['version']}" for lx in pending_add['res']['lexicons']],
                              'route': 'in memory' if pending_add.get('_mem') else 'file', 'before': before, 'after': now, 'not installed': lacking})
                pending_add = None
            if pending is not None and now is not None:
                toks = pending.split()
                if all(_tok_clear(t) for t in toks):
                    matched = {s for s in before if any(_tok_match(t, s) for t in toks)}
                    ch = True
                    while ch:
                        ch = False
                        for s in before:
                            if s in BASE_OF and BASE_OF[s] in matched and s not in matched:
                                matched.add(s)
                                ch = True
                    exp_after = [s for s in before if s not in matched]
                    if matched and sorted(now) != sorted(exp_after):
                        ctx.fail('remove(spec)-removes-exactly-the-matched-lexicons-and-their-extensions', sc,
                                 {'spec': pending, 'before': before, 'after': now, 'expected_after': exp_after})
            pending = None
            if now is not None:
                before = now
        elif op['k'] == 'remove' and isinstance(oi, dict) and oi.get('ok'):
            pending = op['spec']
            pending_add = None
        elif op['k'] == 'add' and isinstance(oi, dict) and oi.get('ok'):
            pending = None
            pending_add = op
        else:
            pending = None
    a = im['audit']
    if a['fk']:
        ctx.fail('no-dangling-reference(foreign_key_check)', sc, {'rows': a['fk'][:5]})
    if a['integrity'] != [('ok',)] and a['integrity'] != [['ok']]:
        ctx.fail('integrity_check', sc, {'rows': a['integrity'][:5]})
    if a['orphans']:
        ctx.fail('every-row-is-owned-by-an-installed-lexicon', sc, a['orphans'])
    if not all(im['fresh_ok']):
        ctx.fail('installed-lexicons-can-be-added-to-an-empty-database', sc, {'installed': im['installed'], 'ok': im['fresh_ok']})
        return
    got = mask_ili(store.canon_obs(im['final'], True))
    exp = mask_ili(store.canon_obs(im['fresh'], True))
    d = c01.diff(got, exp)
    if d:
        # F12: residue of removed extensions in tags / pronunciations only
        res = residue_tags(sc, set(im['installed']))
        g2 = json.loads(json.dumps(got))
        removed = []
        if res:
            for o, oe in zip(g2, exp):
                for w, we in zip(o['scope']['words'], oe['scope']['words']):
                    for f, fe in zip(w['forms'], we['forms']):
                        # the residue was written after the form's own rows: take the surplus away from the end
                        for t in list(f['tags'])[::-1]:
                            if f['tags'].count(t) > fe['tags'].count(t) and json.dumps(['tag'] + t) in res:
                                del f['tags'][len(f['tags']) - 1 - f['tags'][::-1].index(t)]
                                removed.append(['tag', w['id'], t])
                        for p in list(f['prons'])[::-1]:
                            if f['prons'].count(p) > fe['prons'].count(p) and json.dumps(['pron'] + p) in res:
                                del f['prons'][len(f['prons']) - 1 - f['prons'][::-1].index(p)]
                                removed.append(['pron', w['id'], p])
        d2 = c01.diff(g2, exp)
        if removed:
            ctx.fail('residue-of-a-removed-extension-in-tags-or-pronunciations', sc, {'residue': removed[:6], 'installed': im['installed']})
        if d2:
            ctx.fail('observation=fresh-database-with-the-installed-lexicons', sc,
                     {'installed': im['installed'], 'path': d2[0], 'after_history': d2[1], 'fresh': d2[2]})


def m_f12(clause, scenario, detail):
    return clause == 'residue-of-a-removed-extension-in-tags-or-pronunciations'


MATCHERS = {'f12_residue_after_remove': m_f12}


def process(ctx, scs):
    import multiprocessing as mp
    with mp.get_context('fork').Pool(min(14, max(1, len(scs)))) as pool:
        impls = pool.map(_impl, scs, chunksize=1)
    models = leanside.run_driver([store.model_request(s) for s in scs]) if ctx.lean['driver_ok'] else [None] * len(scs)
    for sc, im, mo in zip(scs, impls, models):
        kinds = [op['k'] for op in sc['ops'] if op['k'] != 'obs']
        effective = False
        if 'outs' in im:
            seq = [(op, o) for op, o in zip(sc['ops'], im['outs']) if op['k'] != 'obs']
            removed_before_add = False
            for (op, o) in seq:
                if op['k'] == 'remove' and o.get('ok'):
                    removed_before_add = True
                if op['k'] == 'add' and removed_before_add:
                    effective = True
        ctx.dist[f'len={len(kinds)}'] += 1
        for k in set(kinds):
            ctx.dist['has-' + k] += 1
        if any(op['k'] == 'remove' and ('*' in op['spec'] or ' ' in op['spec']) for op in sc['ops']):
            ctx.dist['star-or-list-remove'] += 1
        ctx.case(sc['ops'] if effective else None)
        judge(ctx, sc, im, mo)
    return impls


def load_corpus():
    d = leanside.ROOT / 'corpus' / PID
    return [json.loads(f.read_text())['scenario'] for f in sorted(x for x in d.glob('*.json') if not x.name.startswith(('seeded-', 'regress-')))] if d.is_dir() else []


def run(ctx):
    n = 40 if ctx.tier == 'quick' else 800
    scs = load_corpus() + [gen_history(ctx.rng, 8 if ctx.tier == 'quick' else 14) for _ in range(n)]
    impls = process(ctx, scs)
    sc = scs[-1]
    ctx.sample({'history': [(op['k'], [f"{l['id']}:{l['version']}" for l in op['res']['lexicons']] if op['k'] == 'add' else op.get('spec', op.get('rows')))
                            for op in sc['ops'] if op['k'] != 'obs'],
                'installed_after': impls[-1].get('installed')})


def widen(ctx):
    process(ctx, [gen_history(ctx.rng, 14) for _ in range(300)])


def replay(ctx, scenario):
    process(ctx, [scenario])
