"""C11 — relation queries return exactly the declared relations; closures terminate."""
import json

import docs
import leanside
import multi
import store
from props import c01

PID = 'C11'
RULE = ('one evaluation = one battery on a database whose sense-sense, sense-synset and synset-synset relation multigraphs are arbitrary '
        '(self-loops, cycles, parallel relations of different type or dc:type, exact duplicates, non-standard types, metadata), for one scope '
        '(base only, base + extension, extension only, default mode); relations(), get_related(), relation_map(), get_related_synsets(), '
        'closure() and relation_paths() of every entity are judged against the documents; non-trivial = the scope contains an extension, '
        'or an entity with >= 2 relations to one target; distinct = distinct (database, scope)')
ASSUMPTIONS = ['relations identical in type, target, defining lexicon and dc:type are one relation (relation_map is a dict keyed by Relation)']


def gen(rng):
    g = docs.Gen(rng, hostile=0.05, rich=0.6)
    v = '1.3'
    a = g.lexicon('a', '1', v, n_syn=rng.randint(3, 6), n_ent=rng.randint(2, 4))
    # dense relation multigraph
    ys = a['synsets']
    ids = [y['id'] for y in ys]
    for y in ys:
        rels = y.setdefault('relations', [])
        for _ in range(rng.randint(0, 4)):
            rels.append({'target': rng.choice(ids), 'relType': rng.choice(['hypernym', 'hypernym', 'instance_hypernym', 'similar', 'also', 'weird_rel'] +
                                                                           ([x for v_ in store.SHORTCUTS.values() for x in v_] if rng.random() < 0.5 else [])),
                         'meta': rng.choice([None, None, {'type': 'sub1'}, {'type': 'sub2'}, {'note': 'n', 'type': 'sub1'}, {'type': 'sub1', 'note': 'n'}])})
        if rels and rng.random() < 0.3:
            rels.append(dict(rels[rng.randrange(len(rels))]))
    sids = [s['id'] for e in a['entries'] for s in e.get('senses', [])]
    for e in a['entries']:
        for s in e.get('senses', []):
            rels = s.setdefault('relations', [])
            for _ in range(rng.randint(0, 3)):
                if rng.random() < 0.7 and sids:
                    rels.append({'target': rng.choice(sids), 'relType': rng.choice(['antonym', 'derivation', 'also', 'my_rel']),
                                 'meta': rng.choice([None, {'type': 't1'}, {'type': 't2'}])})
                else:
                    rels.append({'target': rng.choice(ids), 'relType': rng.choice(['domain_topic', 'exemplifies', 'other']),
                                 'meta': rng.choice([None, {'type': 't1'}])})
    ax = g.extension('ax', a, '1', v)
    ops = [multi.add_op({'a:1': a}, ['a:1'], v), multi.add_op({'ax:1': ax}, ['ax:1'], v)]
    if rng.random() < 0.4:
        # the extension takes the rowid of a lexicon that was looked at and removed before
        us = {f'u{i}:1': g.lexicon(f'u{i}', '1', v, n_syn=2, n_ent=1) for i in range(3)}
        last = 'u2:1'
        ops = [multi.add_op({'a:1': a}, ['a:1'], v)] + [multi.add_op(us, [s_], v) for s_ in us] + [{'k': 'battery', 'expand': ''},
               {'k': 'remove', 'spec': last, '_removed': [last]}, multi.add_op({'ax:1': ax}, ['ax:1'], v)]
    extra_sel = []
    if len(ops) == 2 and rng.random() < 0.5:
        # the extension is shipped in one file with another version of its base, which uses the same entity ids
        import copy
        a2 = copy.deepcopy(a)
        a2['version'] = '2'
        ops[1] = multi.add_op({'ax:1': ax, 'a:2': a2}, ['ax:1', 'a:2'], v)
        extra_sel = [{'lexicon': 'a:2'}]
    for s in [{'lexicon': 'a:1'}, {'lexicon': 'a:1 ax:1'}, {'lexicon': 'ax:1'}, {}] + extra_sel:
        ops.append(dict({'k': 'battery'}, **s, expand=''))
    return {'ops': ops}


def reach(adj, x):
    seen = []
    q = list(adj.get(x, []))
    while q:
        y = q.pop(0)
        if y not in seen:
            seen.append(y)
            q.extend(adj.get(y, []))
    return seen


def judge(ctx, sc, im):
    for k, op in enumerate(sc['ops']):
        if op['k'] != 'battery' or im[k] == 'error':
            continue
        args = {a: v for a, v in op.items() if a != 'k'}
        inst = multi.installed_after(sc, im, k)
        b = store.canon_battery(im[k])
        for x in im[k]['scope'].get('synsets_x', []):
            if x.get('_shortcuts_bad'):
                ctx.fail('hypernyms/hyponyms/holonyms/meronyms()=get_related(the-documented-relation-names)', sc,
                         {'args': args, 'synset': x['ref'], '[method, method result, get_related result]': x['_shortcuts_bad'][:3]})
                break
        default_mode = not args.get('lexicon') and not args.get('lang')
        scope_specs = [s for s, _ in inst] if default_mode else b['S']
        d = dict(inst)
        exp = store.canon_scope(store.expected_scope([(s, d[s]) for s in scope_specs if s in d], d))
        got = b['scope']
        for kind, field in (('senses', 'relations'), ('senses', 'synset_relations'), ('synsets', 'relations')):
            ge = {(x['lexicon'], x['id']): x for x in got[kind]}
            ee = {(x['lexicon'], x['id']): x for x in exp[kind]}
            for key in ee:
                if key not in ge:
                    continue
                if ge[key][field] != ee[key][field]:
                    ctx.fail(f'{kind}.{field}=exactly-the-declared-relations-in-scope', sc,
                             {'args': args, 'entity': list(key), 'got': ge[key][field], 'expected': ee[key][field]})
        # derived views on synsets
        ee = {(x['lexicon'], x['id']): x for x in exp['synsets']}
        adj_all, adj_hyp = {}, {}
        for key, y in ee.items():
            for r, t in y['relations']:
                adj_all.setdefault(key, [])
                if tuple(t[:2]) not in adj_all[key]:
                    adj_all[key].append(tuple(t[:2]))
                if r[0] in ('hypernym', 'instance_hypernym'):
                    adj_hyp.setdefault(key, [])
                    if tuple(t[:2]) not in adj_hyp[key]:
                        adj_hyp[key].append(tuple(t[:2]))
        for x in got['synsets_x']:
            key = tuple(x['ref'][:2])
            if key not in ee:
                continue
            rels = ee[key]['relations']
            exp_related = sorted({tuple(t[:2]) for r, t in rels})
            if sorted({tuple(t[:2]) for t in x['get_related']}) != exp_related or len(x['get_related']) != len(exp_related):
                ctx.fail('get_related()=targets-without-duplicates', sc, {'args': args, 'synset': list(key), 'got': x['get_related'], 'expected': exp_related})
            names = sorted({r[0] for r, t in rels})
            if sorted(x['relations']) != names:
                ctx.fail('relations()-keys=relation-names', sc, {'args': args, 'synset': list(key), 'got': sorted(x['relations']), 'expected': names})
            for n in names:
                e_n = sorted({tuple(t[:2]) for r, t in rels if r[0] == n})
                if sorted({tuple(t[:2]) for t in x['relations'].get(n, [])}) != e_n:
                    ctx.fail('relations()[name]=targets-of-that-type', sc, {'args': args, 'synset': list(key), 'name': n, 'got': x['relations'].get(n), 'expected': e_n})
                if sorted({tuple(t[:2]) for t in x['by_type'].get(n, [])}) != e_n:
                    ctx.fail('get_related(type)=restricted-to-the-requested-type', sc, {'args': args, 'synset': list(key), 'name': n, 'got': x['by_type'].get(n), 'expected': e_n})
            e_h = sorted({tuple(t[:2]) for r, t in rels if r[0] in ('hypernym', 'instance_hypernym')})
            if sorted({tuple(t[:2]) for t in x['hypernyms']}) != e_h:
                ctx.fail('hypernyms()=hypernym+instance_hypernym-targets', sc, {'args': args, 'synset': list(key), 'got': x['hypernyms'], 'expected': e_h})
            e_c = sorted(reach(adj_hyp, key))
            g_c = sorted(tuple(t[:2]) for t in x['closure_hypernym'])
            if g_c != e_c:
                ctx.fail('closure()=exactly-the-reachable-entities-once', sc, {'args': args, 'synset': list(key), 'got': g_c, 'expected': e_c})
            for p in x['hypernym_paths']:
                nodes = [tuple(t[:2]) for t in p]
                if len(set(nodes)) != len(nodes) or key in nodes:
                    ctx.fail('relation_paths()-only-simple-paths', sc, {'args': args, 'synset': list(key), 'path': p})
                prev = key
                for nd in nodes:
                    if nd not in adj_hyp.get(prev, []):
                        ctx.fail('relation_paths()-follows-declared-relations', sc, {'args': args, 'synset': list(key), 'path': p})
                        break
                    prev = nd
        es = {(x['lexicon'], x['id']): x for x in exp['senses']}
        sadj = {}
        for key, s in es.items():
            sadj[key] = []
            for r, t in s['relations']:
                if tuple(t) not in sadj[key]:
                    sadj[key].append(tuple(t))
        for x in got['senses_x']:
            key = tuple(x['ref'])
            if key not in es:
                continue
            e_r = sorted(sadj[key])
            if sorted(tuple(t) for t in x['get_related']) != e_r:
                ctx.fail('sense.get_related()=targets-without-duplicates', sc, {'args': args, 'sense': list(key), 'got': x['get_related'], 'expected': e_r})
            e_y = sorted({tuple(t[1][:2]) for t in es[key]['synset_relations']})
            if sorted(tuple(t[:2]) for t in x['get_related_synsets']) != e_y:
                ctx.fail('sense.get_related_synsets()=declared-synset-targets', sc, {'args': args, 'sense': list(key), 'got': x['get_related_synsets'], 'expected': e_y})
            e_c = sorted(reach(sadj, key))
            if sorted(tuple(t) for t in x['closure']) != e_c:
                ctx.fail('sense.closure()=exactly-the-reachable-senses-once', sc, {'args': args, 'sense': list(key), 'got': x['closure'], 'expected': e_c})


MATCHERS = {}


def process(ctx, scs):
    impls, models = multi.execute(ctx, scs)
    for sc, im, mo in zip(scs, impls, models):
        ctx.case(sc['ops'], n=sum(1 for op in sc['ops'] if op['k'] == 'battery'))
        if not multi.correspond(ctx, sc, im, mo):
            continue
        judge(ctx, sc, im)
    return impls


def run(ctx):
    scs = [gen(ctx.rng) for _ in range(24 if ctx.tier == 'quick' else 400)]
    impls = process(ctx, scs)
    sc = scs[-1]
    ctx.sample({'synset_relations_of_a:1': [[y['id'], [(r['relType'], r['target'], (r.get('meta') or {}).get('type')) for r in y.get('relations', [])]]
                                             for y in sc['ops'][0]['res']['lexicons'][0]['synsets']][:3],
                'scopes': [{a: v for a, v in op.items() if a != 'k'} for op in sc['ops'] if op['k'] == 'battery']})


def widen(ctx):
    process(ctx, [gen(ctx.rng) for _ in range(150)])


def replay(ctx, scenario):
    process(ctx, [scenario])
