"""C07 — the way a resource is supplied does not change what gets stored."""
import copy
import gzip
import hashlib
import json
import lzma
import os
import pathlib
import shutil
import tarfile

import docs
import leanside
import store
from props import c01, c06

PID = 'C07'
RULE = ('one evaluation = one resource supplied through one route (plain xml, .gz, .xz, package directory with extra files, collection of '
        'independent packages, tar / tar.gz / tar.xz of file, package or collection, lmf.load + add_lexical_resource), observed and dumped, and '
        'compared with the plain-file route; plus repetition of the add, extension-without-base, mixed skip maps, input-unmodified checks, '
        'and random file trees whose iterpackages() result is compared with the Lean dispatch model; non-trivial = any route other than the '
        'plain file; distinct = distinct (resource, route)')
ASSUMPTIONS = ['gzip / xz / tar byte formats and tempfile are the standard library\'s; exercised, not modelled']

ROUTES = ['xml', 'xml-nl', 'gz', 'gz-noname', 'xz', 'pkg', 'col', 'col-dot', 'tar-file', 'tgz-file', 'txz-file', 'tar-pkg', 'tgz-pkg', 'tar-col', 'txz-col', 'mem']


def sha(path):
    h = hashlib.sha256()
    p = pathlib.Path(path)
    if p.is_dir():
        for f in sorted(p.rglob('*')):
            if f.is_file():
                h.update(str(f.relative_to(p)).encode())
                h.update(f.read_bytes())
    else:
        h.update(p.read_bytes())
    return h.hexdigest()


def build_route(d, route, res, k):
    """returns (path to give to wn.add, None) or (None, in-memory resource)"""
    xml = docs.to_xml(res).encode('utf-8')
    base = d / f'r{k}'
    base.mkdir()
    # resources are recognised by content, not by name
    fname = ['wordnet.xml', 'WORDNET.XML', 'resource.lmf', 'wn-data'][(k + len(xml)) % 4]
    plain = base / fname
    if route == 'mem':
        plain.write_bytes(xml)
        return None, plain
    if route == 'xml':
        plain.write_bytes(xml)
        return plain, None
    if route == 'xml-nl':
        # the same document with every start tag of a lexicon / its base written one attribute per line
        import re as _re
        xml2 = _re.sub(r'<(LexiconExtension|Lexicon|Extends|Requires) ', lambda m: '<' + m.group(1) + ('\n      ' if (k + len(xml)) % 2 else '\t'), xml.decode('utf-8'))
        plain.write_bytes(xml2.encode('utf-8'))
        return plain, None
    if route == 'gz-noname':
        # a gzip stream without the optional file-name field (gzip -n, gzip.compress, a pipe)
        p = base / (fname + '.gz')
        p.write_bytes(gzip.compress(xml, mtime=0))
        return p, None
    if route == 'gz':
        p = base / (fname + '.gz')
        with gzip.open(p, 'wb') as f:
            f.write(xml)
        return p, None
    if route == 'xz':
        p = base / (fname + '.xz')
        with lzma.open(p, 'wb') as f:
            f.write(xml)
        return p, None

    def mkpkg(where, name='pkg'):
        pk = where / name
        pk.mkdir(parents=True)
        (pk / fname).write_bytes(xml)
        (pk / 'README.md').write_text('read me')
        (pk / 'LICENSE').write_text('licence text')
        (pk / 'citation.bib').write_text('@misc{x}')
        return pk

    def mkcol(where, pkgname='the-package'):
        col = where / 'collection'
        col.mkdir()
        mkpkg(col, pkgname)
        (col / 'README.txt').write_text('collection readme')
        (col / 'not-a-package').mkdir()
        (col / 'not-a-package' / 'notes.txt').write_text('nothing here')
        return col
    if route == 'pkg':
        return mkpkg(base), None
    if route == 'col':
        return mkcol(base), None
    if route == 'col-dot':
        # package directories are recognised by what they contain, whatever they are called
        return mkcol(base, '.wn-' + ['data', 'x.y', 'pkg 1'][k % 3]), None
    kind, what = route.split('-')
    mode = {'tar': 'w', 'tgz': 'w:gz', 'txz': 'w:xz'}[kind]
    stage = base / 'stage'
    stage.mkdir()
    if what == 'file':
        (stage / fname).write_bytes(xml)
        member = stage / fname
    elif what == 'pkg':
        member = mkpkg(stage)
    else:
        member = mkcol(stage)
    p = base / f'archive.{kind}'
    with tarfile.open(p, mode) as t:
        t.add(member, arcname=member.name)
    shutil.rmtree(stage)
    return p, None


def _impl(sc):
    import wnenv
    wn = wnenv.wn
    from wn import lmf
    out = {'routes': {}}
    try:
        d = wnenv.workdir()
        for k, route in enumerate(sc['routes']):
            wnenv.fresh_db()
            if sc.get('pre') is not None:
                f0 = d / f'pre{k}.xml'
                f0.write_text(docs.to_xml(sc['pre']), encoding='utf-8')
                wn.add(f0, progress_handler=None)
            path, mem = build_route(d, route, sc['res'], k)
            rec = {}
            try:
                if mem is not None:
                    r = lmf.load(mem, progress_handler=None)
                    before = copy.deepcopy(r)
                    wn.add_lexical_resource(r, progress_handler=None)
                    rec['input_unmodified'] = (r == before)
                    # adding the very same object again must change nothing and must not fail
                    d1 = c06.dump(wn._db.connect())
                    wn.add_lexical_resource(r, progress_handler=None)
                    rec['readd_same_object_noop'] = (c06.dump(wn._db.connect()) == d1) and (r == before)
                else:
                    h0 = sha(path)
                    wn.add(path, progress_handler=None)
                    rec['input_unmodified'] = (sha(path) == h0)
                rec['ok'] = True
            except Exception as e:
                rec['ok'] = False
                rec['exc'] = type(e).__name__ + ': ' + str(e)[:200]
            if sc['kind'] == 'odd-version':
                # specifiers cannot name these lexicons: list them from the table, the content is in the dump
                rec['obs'] = [{'spec': f'{i}:{vv}'} for i, vv in wn._db.connect().execute('SELECT id, version FROM lexicons ORDER BY rowid')]
            else:
                rec['obs'] = store.canon_obs(store.obs_all(wn))
            dd = c06.dump(wn._db.connect())
            rec['dump'] = hashlib.sha256(json.dumps(dd, sort_keys=True).encode()).hexdigest()
            # repetition
            if rec['ok'] and mem is None:
                try:
                    wn.add(path, progress_handler=None)
                    rec['repeat_noop'] = (c06.dump(wn._db.connect()) == dd)
                except Exception as e:
                    rec['repeat_noop'] = 'error: ' + type(e).__name__
            out['routes'][route] = rec
        # skipped lexicons are skipped as a whole: same tables as adding the resource without them
        keep = sc.get('kept')
        if keep is not None:
            wnenv.fresh_db()
            if sc.get('pre') is not None:
                wn.add(d / 'pre0.xml', progress_handler=None)
            if keep['lexicons']:
                fk = d / 'kept.xml'
                fk.write_text(docs.to_xml(keep), encoding='utf-8')
                wn.add(fk, progress_handler=None)
            out['kept_dump'] = hashlib.sha256(json.dumps(c06.dump(wn._db.connect()), sort_keys=True).encode()).hexdigest()
        # file trees for the dispatch model
        out['trees'] = []
        for j, tree in enumerate(sc.get('trees', [])):
            root = d / f'tree{j}'
            root.mkdir()
            p = materialise(root, 'top', tree)
            try:
                got = []
                for pk in wn.project.iterpackages(p):      # temporary files live only during the iteration
                    rf = pk.resource_file()
                    got.append([pk.type, pathlib.Path(rf).read_bytes().decode('utf-8').split('NAME=')[1].split(';')[0]])
                out['trees'].append(sorted(got))
            except wn.Error:
                out['trees'].append('error')
            except Exception as e:
                out['trees'].append('exc:' + type(e).__name__ + ':' + str(e)[:100])
        shutil.rmtree(d, ignore_errors=True)
        return out
    except Exception as e:
        import traceback
        return {'exception': repr(e), 'tb': traceback.format_exc()[-1500:]}
    finally:
        wnenv.cleanup()


LMF_STUB = ('<?xml version="1.0" encoding="UTF-8"?>\n<!DOCTYPE LexicalResource SYSTEM "http://globalwordnet.github.io/schemas/WN-LMF-1.1.dtd">\n'
            '<LexicalResource xmlns:dc="https://globalwordnet.github.io/schemas/dc/"><!-- NAME={name}; -->\n'
            '<Lexicon id="{name}" label="l" language="en" email="e" license="l" version="1"/>\n</LexicalResource>\n')


def materialise(where, name, node):
    """write an abstract tree to disk, return the path"""
    t = node['t']
    if t == 'lmf':
        p = where / (name + '.xml')
        p.write_text(LMF_STUB.format(name=node['name']))
        return p
    if t == 'ili':
        p = where / (name + '.tsv')
        p.write_text('ili\tstatus\tdefinition\ni1\tactive\tNAME=' + node['name'] + ';\n')
        return p
    if t == 'other':
        p = where / (name + '.txt')
        p.write_text('just text')
        return p
    if t in ('gz', 'xz'):
        tmp = where / ('_in_' + name)
        tmp.mkdir()
        inner = materialise(tmp, name, node['inner'])
        p = where / (name + '.' + t)
        if inner.is_dir():
            raise ValueError('cannot compress a directory')
        data = inner.read_bytes()
        with (gzip.open if t == 'gz' else lzma.open)(p, 'wb') as f:
            f.write(data)
        shutil.rmtree(tmp)
        return p
    if t == 'tar':
        stage = where / ('_stage_' + name)
        stage.mkdir()
        members = [materialise(stage, f'm{i}', m) for i, m in enumerate(node['members'])]
        p = where / (name + '.tar' + node.get('comp', ''))
        mode = {'': 'w', '.gz': 'w:gz', '.xz': 'w:xz'}[node.get('comp', '')]
        with tarfile.open(p, mode) as tf:
            for m in members:
                tf.add(m, arcname=m.name)
        shutil.rmtree(stage)
        return p
    if t == 'dir':
        p = where / name
        p.mkdir()
        for i, c in enumerate(node['children']):
            materialise(p, f'c{i}', c)
        return p
    raise ValueError(t)


def gen_tree(rng, depth=0):
    leaf = lambda: rng.choice([{'t': 'lmf', 'name': f'n{rng.randrange(1000)}'}, {'t': 'ili', 'name': f'i{rng.randrange(1000)}'}, {'t': 'other'}, {'t': 'other'}])
    r = rng.random()
    if depth >= 3 or r < 0.3:
        return leaf()
    if r < 0.45:
        inner = leaf() if rng.random() < 0.8 else {'t': rng.choice(['gz', 'xz']), 'inner': leaf()}
        return {'t': rng.choice(['gz', 'xz']), 'inner': inner}
    if r < 0.65:
        return {'t': 'tar', 'comp': rng.choice(['', '.gz', '.xz']), 'members': [gen_tree(rng, depth + 1) for _ in range(rng.choice([1, 1, 1, 2, 0]))]}
    return {'t': 'dir', 'children': [gen_tree(rng, depth + 1) for _ in range(rng.randint(0, 4))]}


def gen(rng):
    g = docs.Gen(rng, hostile=0.1, rich=0.5)
    v = rng.choice(['1.0', '1.1', '1.3'])
    kind = rng.choice(['plain', 'plain', 'two', 'ext-no-base', 'mixed-installed', 'frames', 'ext-with-base', 'odd-version'])
    pre = None
    a = g.lexicon('a', '1', v)
    if kind == 'plain':
        res = docs.resource([a], v)
    elif kind == 'two':
        # dependencies declared without the optional url (WN-LMF >= 1.1)
        reqs = [{'id': 'a', 'version': '1'}, {'id': 'nowhere', 'version': '0', 'url': 'http://x'}] if v != '1.0' and rng.random() < 0.7 else None
        res = docs.resource([a, g.lexicon('b', '1', v, requires=reqs)], v)
    elif kind == 'ext-with-base':
        v = rng.choice(['1.1', '1.3'])
        a = g.lexicon('a', '1', v)
        pre = docs.resource([a], v)
        res = docs.resource([g.extension('ax', a, '1', v)], v)     # the base is installed: the extension is added
    elif kind == 'odd-version':
        # id and version are compared verbatim by the skip rules: a blank or a glob character in a version
        # is neither a separator nor a pattern
        v = rng.choice(['1.1', '1.3'])
        odd = rng.choice(['1.0 beta', '1[rc]', '1*', '1.?', '1 2'])
        if rng.random() < 0.5:
            plain_v = {'1.0 beta': '1.0', '1[rc]': '1r', '1*': '1.5', '1.?': '1.2', '1 2': '2'}[odd]
            pre = docs.resource([g.lexicon('a', plain_v, v)], v)      # matched by the odd version read as pattern / list
            res = docs.resource([g.lexicon('a', odd, v)], v)
        else:
            a = g.lexicon('a', odd, v)
            pre = docs.resource([a], v)
            res = docs.resource([a, g.extension('ax', a, '1', v)], v)  # a is skipped, its extension is added
    elif kind == 'ext-no-base':
        ve = '1.1'
        zz = g.lexicon('zz', '9', ve)
        res = docs.resource([g.extension('zx', zz, '1', ve), g.lexicon('b', '1', ve)], ve)    # base zz:9 is not installed
    elif kind == 'mixed-installed':
        pre = docs.resource([a], v)
        res = docs.resource([a, g.lexicon('b', '1', v)], v)     # a:1 already installed, b:1 new
    else:
        v = '1.3'
        a = g.lexicon('a', '1', v)
        fr = {'id': 'a-sbx', 'subcategorizationFrame': 'frame with senses attribute'}
        senses = [s for e in a['entries'] for s in e.get('senses', [])]
        if len(senses) >= 2:
            fr['senses'] = [senses[0]['id']]
            senses[1].setdefault('subcat', []).append('a-sbx')
        a.setdefault('frames', []).append(fr)
        res = docs.resource([a], v)
    routes = ['xml'] + rng.sample(ROUTES[1:], 5)
    if 'mem' not in routes:
        routes[-1] = 'mem'
    sc = {'res': res, 'pre': pre, 'routes': routes, 'kind': kind, 'trees': [gen_tree(rng) for _ in range(6)]}
    inst = set(expected_installed(sc)) - {f"{lx['id']}:{lx['version']}" for lx in (pre['lexicons'] if pre else [])}
    kept = [lx for lx in res['lexicons'] if f"{lx['id']}:{lx['version']}" in inst]
    if len(kept) != len(res['lexicons']):
        sc['kept'] = docs.resource(kept, res['lmf_version'])
    return sc


def expected_installed(sc):
    have = {f"{lx['id']}:{lx['version']}" for lx in (sc['pre']['lexicons'] if sc['pre'] else [])}
    out = set(have)
    for lx in sc['res']['lexicons']:
        spec = f"{lx['id']}:{lx['version']}"
        if spec in have:
            continue
        if lx.get('extends') and f"{lx['extends']['id']}:{lx['extends']['version']}" not in have:
            continue
        out.add(spec)
    return sorted(out)


def judge(ctx, sc, im, tree_models):
    small = {'kind': sc['kind'], 'routes': sc['routes'], 'res': sc['res'], 'pre': sc['pre']}
    if 'exception' in im:
        ctx.fail('routes-run', small, im)
        return
    ref = im['routes']['xml']
    exp_inst = expected_installed(sc)
    for route, rec in im['routes'].items():
        ctx.dist['route=' + route] += 1
        ctx.dist['kind=' + sc['kind']] += 1
        ctx.case((json.dumps(sc['res'], sort_keys=True, default=str)[:2000], route) if route != 'xml' else None)
        where = {'route': route}
        if not rec['ok']:
            ctx.fail('valid-resource-is-accepted-through-every-route', small, dict(where, exc=rec.get('exc')))
            continue
        got_inst = sorted(o['spec'] for o in rec['obs'])
        if got_inst != exp_inst:
            ctx.fail('installed-lexicons(skip-rules:already-installed/base-missing)', small, dict(where, got=got_inst, expected=exp_inst))
        if rec['obs'] != ref['obs']:
            d = c01.diff(rec['obs'], ref['obs'])
            ctx.fail('same-observation-as-the-plain-file-route', small, dict(where, path=d[0] if d else '?', got=d[1] if d else None, plain=d[2] if d else None))
        elif rec['dump'] != ref['dump']:
            ctx.fail('same-table-content-as-the-plain-file-route', small, where)
        if rec.get('input_unmodified') is False:
            ctx.fail('input-is-not-modified', small, where)
        if rec.get('repeat_noop') not in (True, None):
            ctx.fail('adding-again-changes-nothing', small, dict(where, got=rec.get('repeat_noop')))
        if rec.get('readd_same_object_noop') is False:
            ctx.fail('adding-the-same-in-memory-resource-again-changes-nothing', small, where)
    if 'kept_dump' in im and ref.get('ok') and im['kept_dump'] != ref['dump']:
        ctx.fail('skipped-lexicons-leave-no-trace(same-tables-as-the-resource-without-them)', small, {'route': 'xml'})
    for tree, got, mo in zip(sc.get('trees', []), im.get('trees', []), tree_models):
        ctx.case(None)
        ctx.dist['file-trees'] += 1
        if mo is None:
            continue
        m = sorted(mo) if isinstance(mo, list) else mo
        if got != m:
            ctx.disagree({'tree': tree}, got, m, 'iterpackages')


MATCHERS = {}


def process(ctx, scs):
    import multiprocessing as mp
    with mp.get_context('fork').Pool(min(12, max(1, len(scs)))) as pool:
        impls = pool.map(_impl, scs, chunksize=1)
    reqs = [{'op': 'route', 'tree': t} for sc in scs for t in sc.get('trees', [])]
    ans = leanside.run_driver(reqs) if (reqs and ctx.lean['driver_ok']) else [None] * len(reqs)
    i = 0
    for sc, im in zip(scs, impls):
        n = len(sc.get('trees', []))
        judge(ctx, sc, im, ans[i:i + n])
        i += n


def run(ctx):
    scs = [gen(ctx.rng) for _ in range(12 if ctx.tier == 'quick' else 150)]
    process(ctx, scs)
    ctx.sample({'kind': scs[-1]['kind'], 'routes': scs[-1]['routes'], 'lexicons': [f"{lx['id']}:{lx['version']}" for lx in scs[-1]['res']['lexicons']],
                'one_file_tree': scs[-1]['trees'][0]})


def widen(ctx):
    process(ctx, [gen(ctx.rng) for _ in range(60)])


def replay(ctx, scenario):
    if 'tree' in scenario:
        process(ctx, [{'res': docs.resource([docs.Gen(ctx.rng).lexicon('a', '1', '1.1')], '1.1'), 'pre': None, 'routes': ['xml'], 'kind': 'plain', 'trees': [scenario['tree']]}])
    else:
        process(ctx, [dict(scenario, trees=[])])
