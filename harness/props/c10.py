"""C10 — navigation between words, senses and synsets is referentially faithful."""
import json

import leanside
import multi
import store

PID = 'C10'
RULE = ('one evaluation = one battery on a multi-lexicon database (extensions whose senses attach to base entries / synsets, lexicons sharing '
        'ILIs, several synsets per ILI, absent / proposed ILIs, two versions of one id) for one Wordnet selection; every sense, word and synset '
        'is judged against the documents (declaring word, referenced synset, inverse navigation, translation by ILI, equality / hash); '
        'non-trivial = the selection contains an extension together with its base, or two lexicons sharing an ILI; distinct = distinct (database, selection)')
ASSUMPTIONS = ['when the referent lies outside the selected lexicons wn.Error is the accepted outcome (C04 forbids returning it)']


def gen(rng):
    W = multi.world(rng, '1.3')
    ops = [multi.add_op(W, ['a:1', 'e:1', 'b:1', 'u:1'], '1.3')]
    if rng.random() < 0.5:
        # navigate first, extend afterwards: results must follow the database, not an earlier call
        ops.append({'k': 'battery', 'expand': ''})
        ops.append({'k': 'battery', 'lexicon': 'a:1', 'expand': ''})
    sels = [{}, {'lexicon': 'a:1 ax:1'}, {'lexicon': 'a:1'}, {'lexicon': 'ax:1'}, {'lang': 'en'}, {'lexicon': 'a:1 e:1 b:1 u:1'}, {'lexicon': 'a:*'}]
    forced = []
    if 'a:2' in W and rng.random() < 0.35:
        # one file: the extension of a:1 first, then a lexicon that uses the same entity ids as a:1
        ops.append(multi.add_op(W, ['ax:1', 'a:2'], '1.3'))
        forced.append({'lexicon': 'a:2'})
    else:
        ops.append(multi.add_op(W, ['ax:1'], '1.3'))
        if rng.random() < 0.4:
            ops.append(multi.add_op(W, ['a:2'], '1.3'))
    if rng.random() < 0.4:
        ops.append(multi.add_op(W, ['axx:1'], '1.3'))      # a chain base <- extension <- extension
        forced.append({'lexicon': 'a:1 ax:1 axx:1'})
    for s in [{}] + forced + rng.sample(sels[1:], 3):
        ops.append(dict({'k': 'battery'}, **s, expand=''))
    if rng.random() < 0.3:
        ops.append({'k': 'remove', 'spec': 'ax:1', '_removed': ['ax:1', 'axx:1']})      # the removal takes the extension of the extension along
        ops.append({'k': 'battery', 'expand': ''})
    return {'ops': ops}


def declared(inst):
    """sense -> (declaring word, referenced synset), from the documents"""
    d = dict(inst)
    out = {}
    for spec, lx in inst:
        base = f"{lx['extends']['id']}:{lx['extends']['version']}" if lx.get('extends') else None
        ext_syn = {y['id'] for y in lx.get('synsets', []) if y.get('external')}
        for e in lx.get('entries', []):
            wlex = base if e.get('external') else spec
            for s in e.get('senses', []):
                if s.get('external'):
                    continue
                ylex = base if s['synset'] in ext_syn else spec
                out[(spec, s['id'])] = ([wlex, e['id']], [ylex, s['synset']])
    return out


def ili_of(inst):
    out = {}
    for spec, lx in inst:
        for y in lx.get('synsets', []):
            if not y.get('external'):
                out[(spec, y['id'])] = y['ili'] if y['ili'] not in ('', 'in') else None
    return out


def judge(ctx, sc, im):
    for k, op in enumerate(sc['ops']):
        if op['k'] != 'battery' or im[k] == 'error':
            continue
        args = {a: v for a, v in op.items() if a != 'k'}
        inst = multi.installed_after(sc, im, k)
        specs = {s for s, _ in inst}
        b = store.canon_battery(im[k])
        S = set(b['S'])
        dec = declared(inst)
        default_mode = not args.get('lexicon') and not args.get('lang')
        dup_ids = {'a:1', 'a:2'} <= S or (default_mode and {'a:1', 'a:2'} <= specs)
        sc_ = b['scope']
        words = {(w['lexicon'], w['id']): w for w in sc_['words']}
        syns = {(y['lexicon'], y['id']): y for y in sc_['synsets']}
        for s in sc_['senses']:
            key = (s['lexicon'], s['id'])
            if key not in dec:
                ctx.fail('sense-is-declared-in-a-document', sc, {'args': args, 'sense': list(key)})
                continue
            ew, ey = dec[key]
            for what, got, exp in (('word', s['word'], ew), ('synset', s['synset'][:2] if s['synset'] != 'error' else 'error', ey)):
                in_scope = exp[0] in S if not default_mode else True
                if got == 'error':
                    if in_scope:
                        ctx.fail(f'sense.{what}()-is-found-when-in-scope', sc, {'args': args, 'sense': list(key), 'expected': exp})
                    continue
                if got != exp:
                    if got[1] == exp[1] and got[0].split(':')[0] == exp[0].split(':')[0] and dup_ids:
                        ctx.fail(f'sense.{what}()-resolved-in-another-version-with-the-same-id', sc,
                                 {'args': args, 'sense': list(key), 'got': got, 'expected': exp})
                    else:
                        ctx.fail(f'sense.{what}()-is-the-declaring-{what}', sc, {'args': args, 'sense': list(key), 'got': got, 'expected': exp})
            # inverse navigation
            if tuple(ew) in words and not dup_ids:
                if s['id'] not in words[tuple(ew)]['senses'].get(s['lexicon'], []):
                    ctx.fail('sense-is-in-word.senses()', sc, {'args': args, 'sense': list(key), 'word': ew})
            if tuple(ey) in syns and not dup_ids:
                if s['id'] not in syns[tuple(ey)]['members'].get(s['lexicon'], []):
                    ctx.fail('sense-is-in-synset.senses()', sc, {'args': args, 'sense': list(key), 'synset': ey})
        # nothing else in the sense lists
        for (lx, wid), w in words.items():
            for owner, ids in w['senses'].items():
                for sid in ids:
                    if (owner, sid) in dec and dec[(owner, sid)][0] != [lx, wid] and not dup_ids:
                        ctx.fail('word.senses()-only-its-own-senses', sc, {'args': args, 'word': [lx, wid], 'sense': [owner, sid]})
        # word.synsets(), synset.words(), synset.lemmas() are the images of the sense lists, in order
        nav = im[k]['scope'].get('nav') or {'words': [], 'synsets': []}
        for wv in nav['words']:
            if wv['synsets'] != wv['via_senses']:
                ctx.fail('word.synsets()=image-of-word.senses()-in-order', sc,
                         {'args': args, 'word': wv['ref'], 'synsets()': wv['synsets'], 'senses().synset()': wv['via_senses']})
        for yv in nav['synsets']:
            if yv['words'] != yv['via_senses']:
                ctx.fail('synset.words()=image-of-synset.senses()-in-order', sc,
                         {'args': args, 'synset': yv['ref'], 'words()': yv['words'], 'senses().word()': yv['via_senses']})
            if yv['lemmas'] != yv['lemmas_via_senses']:
                ctx.fail('synset.lemmas()=lemmas-of-synset.words()-in-order', sc,
                         {'args': args, 'synset': yv['ref'], 'lemmas()': yv['lemmas'], 'expected': yv['lemmas_via_senses']})
        # translation by ILI
        ilis = ili_of(inst)
        for x in sc_['synsets_x']:
            ref = tuple(x['ref'][:2])
            my = ilis.get(ref)
            for T, got in x['translate'].items():
                exp = sorted([[T, yid] for (sp, yid), i in ilis.items() if sp == T and my is not None and i == my])
                g = sorted([t[:2] for t in got]) if isinstance(got, list) else got
                if g != exp:
                    ctx.fail('synset.translate()=synsets-of-the-target-sharing-the-ILI', sc,
                             {'args': args, 'synset': list(ref), 'ili': my, 'target': T, 'got': g, 'expected': exp})
            if x.get('_translate_all') is not None:
                exp = sorted([[sp, yid] for (sp, yid), i in ilis.items() if my is not None and i == my])
                g = sorted(t[:2] for t in x['_translate_all'])
                if g != exp:
                    ctx.fail('synset.translate()-without-target=all-installed-synsets-sharing-the-ILI', sc,
                             {'args': args, 'synset': list(ref), 'ili': my, 'got': g, 'expected': exp})
        if sc_.get('identity'):
            bad = sc_['identity']
            if dup_ids and all(v[0] == 'same-entity-unequal-or-hash-differs' for v in bad):
                ctx.fail('identity-through-sense.word()/synset()-with-repeated-ids', sc, {'args': args, 'violations': bad[:3]})
            else:
                ctx.fail('equal-iff-same-stored-entity-and-hash-alike', sc, {'args': args, 'violations': bad[:3]})


def m_f5(clause, scenario, detail):
    return clause in ('sense.word()-resolved-in-another-version-with-the-same-id',
                      'sense.synset()-resolved-in-another-version-with-the-same-id',
                      'identity-through-sense.word()/synset()-with-repeated-ids')


MATCHERS = {'f5_sense_word_by_id': m_f5}


def process(ctx, scs):
    impls, models = multi.execute(ctx, scs)
    for sc, im, mo in zip(scs, impls, models):
        nb = sum(1 for op in sc['ops'] if op['k'] == 'battery')
        ctx.case(sc['ops'], n=nb)
        if any('a:2' in [f"{l['id']}:{l['version']}" for l in op['res']['lexicons']] for op in sc['ops'] if op['k'] == 'add'):
            ctx.dist['two-versions-of-one-id'] += 1
        if not multi.correspond(ctx, sc, im, mo):
            continue
        judge(ctx, sc, im)
    return impls


def load_corpus():
    d = leanside.ROOT / 'corpus' / PID
    return [json.loads(f.read_text())['scenario'] for f in sorted(x for x in d.glob('*.json') if not x.name.startswith(('seeded-', 'regress-')))] if d.is_dir() else []


def run(ctx):
    scs = load_corpus() + [gen(ctx.rng) for _ in range(16 if ctx.tier == 'quick' else 250)]
    impls = process(ctx, scs)
    sc = scs[-1]
    ctx.sample({'installed': sorted({f"{lx['id']}:{lx['version']}" for op in sc['ops'] if op['k'] == 'add' for lx in op['res']['lexicons']}),
                'selections': [{a: v for a, v in op.items() if a != 'k'} for op in sc['ops'] if op['k'] == 'battery']})


def widen(ctx):
    process(ctx, [gen(ctx.rng) for _ in range(100)])


def replay(ctx, scenario):
    process(ctx, [scenario])
