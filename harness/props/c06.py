"""C06 — a failed add or remove leaves the database exactly as it was."""
import copy
import json
import shutil
import sqlite3

import docs
import leanside
import store
from props import c01

PID = 'C06'
RULE = ('one evaluation = one fault point of one operation on the real library: an exception raised from the caller\'s progress handler at '
        'callback k (every k = 1..K of the run), one corrupted reference at one position (sense->synset, sense- and synset-relation target, '
        'duplicate entry id, duplicate form), an authorizer denial at one SQL write statement, or an interrupted remove; after the fault the '
        'logical dump of every table is compared with the pre-state, then a valid add must succeed and give the normal observation; the SQL '
        'statement stream of successful adds/removes is classified by the Lean model (one transaction per add, one per removed lexicon); '
        'non-trivial = the fault hits after the first write of the operation; distinct = distinct (resource, fault kind, position)')
ASSUMPTIONS = ['SQLite rollback and the sqlite3 context manager are trusted; power-loss safety (synchronous=OFF) is outside the property']
TABLES = ['ilis', 'proposed_ilis', 'lexicons', 'lexicon_dependencies', 'lexicon_extensions', 'entries', 'forms', 'pronunciations',
          'tags', 'synsets', 'synset_relations', 'definitions', 'synset_examples', 'senses', 'sense_relations', 'sense_synset_relations',
          'adjpositions', 'sense_examples', 'counts', 'syntactic_behaviours', 'syntactic_behaviour_senses', 'relation_types',
          'ili_statuses', 'lexfiles']


class Boom(Exception):
    pass


class Halt(BaseException):
    """an exception that is not an `Exception` (like KeyboardInterrupt / SystemExit)"""


EXC_TYPES = [Boom, KeyboardInterrupt, Halt, Boom]


def dump(conn):
    out = {}
    for t in TABLES:
        rows = conn.execute(f'SELECT rowid, * FROM {t} ORDER BY rowid').fetchall()
        out[t] = [json.dumps(r, default=str, sort_keys=True) for r in rows]
    return out


def gen_resource(rng):
    g = docs.Gen(rng, hostile=0.05, rich=0.6)
    v = rng.choice(['1.1', '1.3'])
    pre = g.lexicon('p', '1', v, n_syn=2, n_ent=2)               # installed beforehand
    a = g.lexicon('a', '1', v, n_syn=rng.randint(2, 4), n_ent=rng.randint(2, 3))
    a.setdefault('synsets', [])[0].setdefault('relations', []).append({'target': a['synsets'][-1]['id'], 'relType': 'brand_new_reltype', 'meta': None})
    a['synsets'][0]['lexfile'] = 'brand.new.lexfile'
    b = g.lexicon('b', '1', v, n_syn=2, n_ent=2)
    # a lexicon-level frame that lists one sense itself and is referred to by another sense's subcat
    senses_ = [s_ for e in a['entries'] for s_ in e.get('senses', [])]
    if len(senses_) >= 2:
        a.setdefault('frames', []).append({'id': 'a-sbx', 'subcategorizationFrame': 'frame with senses attribute', 'senses': [senses_[0]['id']]})
        senses_[1].setdefault('subcat', []).append('a-sbx')
    ext = g.extension('px', pre, '1', v)
    main = [a, b]
    if rng.random() < 0.5:
        # an extension shipped in the same resource as its base (skipped by the pre-check) between two lexicons
        main = [a, g.extension('ax', a, '1', v), b]
    return {'pre': docs.resource([pre], v), 'main': docs.resource(main, v), 'ext': docs.resource([ext], v), 'v': v}


def corruptions(res, rng, limit):
    """single-reference corruptions at every position (sampled to `limit`)"""
    out = []
    lx_n = len(res['lexicons'])
    for li in range(lx_n):
        lx = res['lexicons'][li]
        if lx.get('extends'):
            continue        # shipped with its base: skipped by the pre-check, its content is never read
        for ei, e in enumerate(lx.get('entries', [])):
            for si, s in enumerate(e.get('senses', [])):
                out.append(('sense->synset', [li, ei, si]))
                for ri, _ in enumerate(s.get('relations', [])):
                    out.append(('sense-relation-target', [li, ei, si, ri]))
            if ei > 0:
                out.append(('duplicate-entry-id', [li, ei]))
            if e.get('forms'):
                out.append(('duplicate-form', [li, ei]))
        for yi, y in enumerate(lx.get('synsets', [])):
            for ri, _ in enumerate(y.get('relations', [])):
                out.append(('synset-relation-target', [li, yi, ri]))
    rng.shuffle(out)
    return out[:limit]


def corrupt(res, kind, pos):
    r = copy.deepcopy(res)
    lx = r['lexicons'][pos[0]]
    if kind == 'sense->synset':
        lx['entries'][pos[1]]['senses'][pos[2]]['synset'] = 'no-such-synset'
    elif kind == 'sense-relation-target':
        lx['entries'][pos[1]]['senses'][pos[2]]['relations'][pos[3]]['target'] = 'no-such-target'
    elif kind == 'synset-relation-target':
        lx['synsets'][pos[1]]['relations'][pos[2]]['target'] = 'no-such-target'
    elif kind == 'duplicate-entry-id':
        lx['entries'][pos[1]]['id'] = lx['entries'][0]['id']
    elif kind == 'duplicate-form':
        e = lx['entries'][pos[1]]
        f = e['forms'][0]
        f['script'] = f.get('script') or 'Latn'
        e['forms'].append(copy.deepcopy(f))
        e['forms'][-1].pop('id', None)
    return r


def _impl(args):
    sc, quick = args
    import random
    import wnenv
    wn = wnenv.wn
    from wn.util import ProgressHandler
    rng = random.Random(sc['seed'])
    # the documented switch for sharing the connection between threads must not change atomicity
    wn.config.allow_multithreading = (sc['seed'] % 3 == 0)
    results = []
    try:
        base_dir = wnenv.fresh_db()
        d = wnenv.workdir()
        files = {}
        for k in ('pre', 'main', 'ext'):
            files[k] = d / f'{k}.xml'
            files[k].write_text(docs.to_xml(sc[k]), encoding='utf-8')
        wn.add(files['pre'], progress_handler=None)
        dbfile = wn.config.database_path
        wnenv.close_pool()
        snap = d / 'snapshot.db'
        shutil.copy(dbfile, snap)

        def restore():
            wnenv.close_pool()
            shutil.copy(snap, dbfile)
            if sc['seed'] % 2:
                # memory pressure: a page cache of a few pages, so that dirty pages of the failing
                # transaction reach the database file before the failure
                wn._db.connect().execute('PRAGMA cache_size = 1')

        pre_dump = dump(wn._db.connect())

        # reference run: count callbacks, record the statement stream
        class Counter(ProgressHandler):
            n = 0

            def update(self, n=1, force=False):
                Counter.n += 1

            def flash(self, message):
                Counter.n += 1
        trace = []
        conn = wn._db.connect()
        conn.set_trace_callback(trace.append)
        wn.add(files['main'], progress_handler=Counter)
        conn.set_trace_callback(None)
        K = Counter.n
        ok_obs = store.canon_obs(store.obs_all(wn))
        results.append({'kind': 'trace-add', 'stmts': [t for t in trace if t.split(None, 1)[0].upper() in ('BEGIN', 'COMMIT', 'ROLLBACK', 'INSERT', 'UPDATE', 'DELETE')], 'units': 1})
        first_write = next((i for i, t in enumerate(trace) if t.lstrip().upper().startswith('INSERT')), 0)

        def check_after_fault(kind, pos, raised, extra=None):
            rec = {'kind': kind, 'pos': pos, 'raised': raised}
            if extra:
                rec.update(extra)
            try:
                conn = wn._db.connect()
                after = dump(conn)
                diff = {t: [len(pre_dump[t]), len(after[t])] for t in TABLES if pre_dump[t] != after[t]}
            except sqlite3.DatabaseError as e:
                diff = {'<database unreadable>': str(e)[:80]}
            rec['changed_tables'] = diff
            # the library stays usable: a following valid add gives the normal result
            try:
                wn.add(files['main'], progress_handler=None)
                rec['followup'] = 'ok' if store.canon_obs(store.obs_all(wn)) == ok_obs else 'different-observation'
            except Exception as e:
                rec['followup'] = 'error:' + type(e).__name__ + ':' + str(e)[:80]
            results.append(rec)

        # (1) exception from the progress handler at every callback
        ks = list(range(1, K + 1))
        if quick and len(ks) > 40:
            ks = sorted(rng.sample(ks, 40))
        for k in ks:
            restore()

            class Bomb(ProgressHandler):
                n = 0

                def update(self, n=1, force=False):
                    Bomb.n += 1
                    if Bomb.n == k:
                        raise EXC_TYPES[k % 4](f'callback {k}')

                def flash(self, message):
                    Bomb.n += 1
                    if Bomb.n == k:
                        raise EXC_TYPES[k % 4](f'callback {k}')
            raised = False
            try:
                wn.add(files['main'], progress_handler=Bomb)
            except (Boom, KeyboardInterrupt, Halt):
                raised = True
            except Exception as e:
                raised = 'other:' + type(e).__name__
            check_after_fault('callback', k, raised, {'K': K, 'exception': EXC_TYPES[k % 4].__name__})

        # (1b) the same, the resource supplied in memory: after the failure the caller adds the very same object again
        from wn import lmf as _lmf
        for k in ([k_ for k_ in ks if k_ % 7 == 3][:4] or ks[:1]):
            restore()
            r_mem = _lmf.load(files['main'], progress_handler=None)

            class BombM(ProgressHandler):
                n = 0

                def update(self, n=1, force=False):
                    BombM.n += 1
                    if BombM.n == k:
                        raise Boom(f'callback {k}')

                def flash(self, message):
                    BombM.n += 1
                    if BombM.n == k:
                        raise Boom(f'callback {k}')
            raised = False
            try:
                wn.add_lexical_resource(r_mem, progress_handler=BombM)
            except Boom:
                raised = True
            except Exception as e:
                raised = 'other:' + type(e).__name__
            rec = {'kind': 'callback(in-memory resource)', 'pos': k, 'raised': raised, 'K': K}
            after = dump(wn._db.connect())
            rec['changed_tables'] = {t: [len(pre_dump[t]), len(after[t])] for t in TABLES if pre_dump[t] != after[t]}
            try:
                wn.add_lexical_resource(r_mem, progress_handler=None)
                rec['followup'] = 'ok' if store.canon_obs(store.obs_all(wn)) == ok_obs else 'different-observation(after adding the same in-memory resource again)'
            except Exception as e:
                rec['followup'] = 'error:' + type(e).__name__ + ':' + str(e)[:80]
            results.append(rec)

        # (2) one corrupted reference at every position
        for kind, pos in corruptions(sc['main'], rng, 12 if quick else 200):
            restore()
            bad = corrupt(sc['main'], kind, pos)
            f = d / 'bad.xml'
            f.write_text(docs.to_xml(bad), encoding='utf-8')
            raised = False
            try:
                wn.add(f, progress_handler=None)
            except Exception as e:
                raised = type(e).__name__
            check_after_fault(kind, pos, raised)

        # (3) authorizer denial at the n-th write statement
        restore()
        counts = {'n': 0}

        def count_auth(action, a1, a2, dbname, source):
            if action in (sqlite3.SQLITE_INSERT, sqlite3.SQLITE_UPDATE, sqlite3.SQLITE_DELETE):
                counts['n'] += 1
            return sqlite3.SQLITE_OK
        conn = wn._db.connect()
        conn.set_authorizer(count_auth)
        wn.add(files['main'], progress_handler=None)
        conn.set_authorizer(None)
        N = counts['n']
        ns = list(range(1, N + 1))
        if len(ns) > (10 if quick else 120):
            ns = sorted(rng.sample(ns, 10 if quick else 120))
        for n in ns:
            restore()
            st = {'n': 0}

            def deny(action, a1, a2, dbname, source, st=st, n=n):
                if action in (sqlite3.SQLITE_INSERT, sqlite3.SQLITE_UPDATE, sqlite3.SQLITE_DELETE):
                    st['n'] += 1
                    if st['n'] == n:
                        return sqlite3.SQLITE_DENY
                return sqlite3.SQLITE_OK
            conn = wn._db.connect()
            conn.set_authorizer(deny)
            raised = False
            try:
                wn.add(files['main'], progress_handler=None)
            except Exception as e:
                raised = type(e).__name__
            conn.set_authorizer(None)
            check_after_fault('authorizer', n, raised, {'N': N})

        # (4) interrupted remove: base p:1 with its extension px:1
        restore()
        wn.add(files['ext'], progress_handler=None)
        wnenv.close_pool()
        snap2 = d / 'snapshot2.db'
        shutil.copy(dbfile, snap2)
        pre2 = dump(wn._db.connect())
        obs2 = store.canon_obs(store.obs_all(wn))

        class CountR(ProgressHandler):
            n = 0

            def update(self, n=1, force=False):
                CountR.n += 1

            def flash(self, message):
                CountR.n += 1
        trace = []
        conn = wn._db.connect()
        conn.set_trace_callback(trace.append)
        wn.remove('p:1', progress_handler=CountR)
        conn.set_trace_callback(None)
        results.append({'kind': 'trace-remove', 'stmts': [t for t in trace if t.split(None, 1)[0].upper() in ('BEGIN', 'COMMIT', 'ROLLBACK', 'INSERT', 'UPDATE', 'DELETE')], 'units': 1})
        KR = CountR.n
        for k in range(1, KR + 1):
            wnenv.close_pool()
            shutil.copy(snap2, dbfile)

            # half of the handlers derive from the library's own ProgressBar (what callers customise), silenced
            from wn.util import ProgressBar as _PB
            _base = _PB if k % 2 == 0 else ProgressHandler

            class BombR(_base):
                n = 0

                def __init__(self, *a, **kw):
                    kw['file'] = None
                    super().__init__(*a, **kw)

                # fails at callback k and at every later one (a handler whose resources are gone)
                def update(self, n=1, force=False):
                    BombR.n += 1
                    if BombR.n >= k:
                        raise EXC_TYPES[k % 4](f'remove callback {k}')

                def flash(self, message):
                    BombR.n += 1
                    if BombR.n >= k:
                        raise EXC_TYPES[k % 4](f'remove callback {k}')
            raised = False
            try:
                wn.remove('p:1', progress_handler=BombR)
            except (Boom, KeyboardInterrupt, Halt):
                raised = True
            except Exception as e:
                raised = 'other:' + type(e).__name__
            # the connection must be left without callbacks of the interrupted call: a long-running statement works
            probe = 'ok'
            try:
                wn._db.connect().execute('WITH RECURSIVE c(x) AS (SELECT 1 UNION ALL SELECT x + 1 FROM c WHERE x < 400000) SELECT count(*) FROM c').fetchone()
            except BaseException as e:      # noqa: BLE001
                probe = 'error:' + type(e).__name__
            after = dump(wn._db.connect())
            rec = {'kind': 'remove-callback', 'pos': k, 'raised': raised, 'K': KR, 'probe': probe,
                   'changed_tables': {t: [len(pre2[t]), len(after[t])] for t in TABLES if pre2[t] != after[t]}}
            if probe != 'ok':
                rec['followup'] = 'connection-unusable-after-interrupted-remove:' + probe
            elif raised:
                rec['followup'] = 'ok' if store.canon_obs(store.obs_all(wn)) == obs2 else 'different-observation'
            else:
                rec['followup'] = 'ok'
            results.append(rec)
        shutil.rmtree(d, ignore_errors=True)
        return results
    except Exception as e:
        import traceback
        return [{'kind': 'harness-exception', 'exception': repr(e), 'tb': traceback.format_exc()[-1500:]}]
    finally:
        wn.config.allow_multithreading = False
        wnenv.cleanup()


def judge(ctx, sc, results):
    small = {'seed': sc['seed'], 'lmf_version': sc['v'], 'main': sc['main'], 'pre': sc['pre'], 'ext': sc['ext']}
    traces = []
    for rec in results:
        kind = rec['kind']
        if kind == 'harness-exception':
            ctx.fail('fault-enumeration-runs', small, rec)
            continue
        if kind.startswith('trace-'):
            traces.append(rec)
            continue
        where = {k: v for k, v in rec.items() if k not in ('followup',)}
        ctx.dist[kind] += 1
        nontriv = bool(rec.get('raised'))
        ctx.case((sc['seed'], kind, json.dumps(rec['pos'])) if nontriv else None)
        if kind in ('sense->synset', 'sense-relation-target', 'synset-relation-target', 'duplicate-entry-id', 'duplicate-form') and not rec['raised']:
            ctx.fail('corrupted-resource-is-rejected', small, where)
            continue
        if rec['raised']:
            if rec['changed_tables']:
                ctx.fail('failed-operation-leaves-the-database-exactly-as-it-was', small, where)
            if rec.get('followup') != 'ok':
                ctx.fail('library-stays-usable-after-the-failure', small, dict(where, followup=rec.get('followup')))
        elif kind in ('callback', 'authorizer') and rec['raised'] is False and kind == 'authorizer':
            ctx.fail('denied-statement-raises', small, where)
    return traces


MATCHERS = {}


def process(ctx, scs):
    import multiprocessing as mp
    quick = ctx.tier == 'quick'
    with mp.get_context('fork').Pool(min(12, max(1, len(scs)))) as pool:
        all_results = pool.map(_impl, [(sc, quick) for sc in scs], chunksize=1)
    reqs = []
    owners = []
    for sc, results in zip(scs, all_results):
        for t in judge(ctx, sc, results):
            reqs.append({'op': 'trace', 'stmts': t['stmts'], 'units': t['units']})
            owners.append((sc, t))
    if reqs and ctx.lean['driver_ok']:
        for (sc, t), ans in zip(owners, leanside.run_driver(reqs)):
            ctx.case(None)
            ctx.dist['trace-classified'] += 1
            if not ans['atomic']:
                ctx.fail('all-writes-of-the-operation-in-one-transaction', {'seed': sc['seed'], 'kind': t['kind']},
                         {'units': ans['units'], 'statements': [s[:60] for s in t['stmts']][:40]})
    return all_results


def run(ctx):
    n = 4 if ctx.tier == 'quick' else 30
    scs = []
    for k in range(n):
        sc = gen_resource(ctx.rng)
        sc['seed'] = ctx.rng.randrange(10 ** 6)
        scs.append(sc)
    res = process(ctx, scs)
    ctx.sample({'lexicons_of_the_added_resource': [[lx['id'], len(lx.get('entries', [])), len(lx.get('synsets', []))] for lx in scs[0]['main']['lexicons']],
                'fault_points': [{k: v for k, v in r.items() if k in ('kind', 'pos', 'raised', 'K', 'N')} for r in res[0] if not r['kind'].startswith('trace')][:8]})


def widen(ctx):
    scs = []
    for k in range(8):
        sc = gen_resource(ctx.rng)
        sc['seed'] = ctx.rng.randrange(10 ** 6)
        scs.append(sc)
    old = ctx.tier
    ctx.tier = 'thorough'
    process(ctx, scs)
    ctx.tier = old


def replay(ctx, scenario):
    sc = {'seed': scenario.get('seed', 0), 'v': scenario.get('lmf_version', '1.1'), 'main': scenario['main'],
          'pre': scenario['pre'], 'ext': scenario['ext']}
    ctx.tier = 'thorough'
    process(ctx, [sc])
