"""C01 — the query API reports exactly the content of every added lexicon."""
import json

import docs
import leanside
import store

PID = 'C01'
RULE = ('one evaluation = one scenario (a generated WN-LMF resource, possibly with an extension and a second file) added through '
        'wn.add and fully observed through the public API, compared with (a) the Lean relational model and (b) the document-level '
        'oracle; non-trivial = >= 2 lexicons or an extension, and optional children of >= 5 kinds present; distinct = distinct resource')
ASSUMPTIONS = [
    'the reference content is what wn.lmf.load returns for the very file given to wn.add (whitespace normalisation belongs to C02)',
    'orders the statement does not fix (examples, counts, tags, pronunciations, relations, frames) are compared as multisets; '
    'senses of an entry and members of a synset are compared per owning lexicon',
]
TRUSTED_EXTRA = ['SQLite storage of TEXT/INTEGER/JSON metadata and its result order for queries without ORDER BY']


def kinds_present(res):
    kinds = set()
    for lx in res['lexicons']:
        if lx.get('extends'):
            kinds.add('extension')
        if lx.get('requires'):
            kinds.add('requires')
        if lx.get('frames'):
            kinds.add('lexicon-frames')
        for e in lx.get('entries', []):
            if e.get('external'):
                kinds.add('external-entry')
            if e.get('frames'):
                kinds.add('entry-frames')
            for f in [e.get('lemma') or {}] + e.get('forms', []):
                if f.get('tags'):
                    kinds.add('tags')
                if f.get('pronunciations'):
                    kinds.add('pronunciations')
                if f.get('script'):
                    kinds.add('script')
            if e.get('forms'):
                kinds.add('forms')
            for s in e.get('senses', []):
                for k in ('examples', 'counts', 'relations', 'adjposition', 'subcat'):
                    if s.get(k):
                        kinds.add('sense-' + k)
                if s.get('external'):
                    kinds.add('external-sense')
                if s.get('meta'):
                    kinds.add('meta')
        for y in lx.get('synsets', []):
            for k in ('definitions', 'examples', 'relations', 'members', 'lexfile', 'ili_definition'):
                if y.get(k):
                    kinds.add('synset-' + k)
            if y.get('external'):
                kinds.add('external-synset')
            if y.get('ili') == 'in':
                kinds.add('proposed-ili')
    return kinds


def gen_scenario(rng, k):
    g = docs.Gen(rng, hostile=rng.choice([0.1, 0.3, 0.5]), rich=rng.choice([0.4, 0.6]))
    v = rng.choice(['1.0', '1.1', '1.2', '1.3', '1.3'])
    base = g.lexicon('a', '1', v)
    if v == '1.0' and rng.random() < 0.5:
        # entry-level frames (WN-LMF 1.0): an entry with two frames that name no senses (= all its senses), and a
        # later entry using one of the two frame strings for one of its own senses
        es = [e for e in base.get('entries', []) if e.get('senses')]
        if len(es) >= 2:
            A, B = es[0], es[-1]
            A['frames'] = [{'subcategorizationFrame': 'Somebody ----s something'}, {'subcategorizationFrame': 'Something ----s'}]
            B['frames'] = [{'subcategorizationFrame': rng.choice(['Somebody ----s something', 'Something ----s']), 'senses': [B['senses'][0]['id']]}]
    lexs = [base]
    if rng.random() < 0.4:
        lexs.append(g.lexicon('b', rng.choice(['1', '2.0+x']), v, requires=[{'id': 'a', 'version': '1'}] if rng.random() < 0.5 else None))
    if v == '1.3' and rng.random() < 0.6:
        # xml:space="preserve" keeps the text as written; every other text node is whitespace-normalised,
        # wherever it stands relative to a preserved one
        for lx in lexs:
            for y in lx.get('synsets', []):
                for t in y.get('definitions', []) + y.get('examples', []) + ([y['ili_definition']] if y.get('ili_definition') else []):
                    r = rng.random()
                    if r < 0.3:
                        t['_preserve'] = True
                        t['text'] = rng.choice(['  kept   as  written ', 'line one\n    line two', ' x'])
                    elif r < 0.7:
                        t['_pad'] = True
    ops = [{'k': 'add', 'res': docs.resource(lexs, v)}]
    if rng.random() < 0.6:
        # extensions live in their own file: _precheck decides skipping against the database
        # as it is before the add, so an extension shipped with its base would be skipped
        ve = rng.choice(['1.1', '1.2', '1.3'])
        ext = g.extension('ax', base, '1', ve)
        ops.append({'k': 'add', 'res': docs.resource([ext], ve)})
        if rng.random() < 0.35:
            ops.append({'k': 'add', 'res': docs.resource([g.extension('axx', ext, '2', ve)], ve)})
    if rng.random() < 0.3:
        v2 = rng.choice(['1.0', '1.1', '1.3'])
        ops.append({'k': 'add', 'res': docs.resource([g.lexicon('c', '1', v2)], v2)})
    ops.append({'k': 'obs'})
    if rng.random() < 0.3:
        # a resource handed over in memory, one of its lexicons removed, the very same object handed over again:
        # what is reported is again exactly the document (a lexicon-level frame that lists a sense itself and is
        # referred to by another sense's subcat is where a shared list would show)
        vf = '1.3'
        f1 = g.lexicon('f', '1', vf, n_syn=2, n_ent=rng.randint(2, 3))
        sn = [s_ for e in f1['entries'] for s_ in e.get('senses', [])]
        if len(sn) >= 2:
            f1.setdefault('frames', []).append({'id': 'f-sbx', 'subcategorizationFrame': 'frame with senses attribute', 'senses': [sn[0]['id']]})
            sn[1].setdefault('subcat', []).append('f-sbx')
        f2 = g.lexicon('h', '1', vf, n_syn=1, n_ent=1)
        for k_, lx_ in enumerate((f1, f2)):
            for j_, y_ in enumerate(lx_.get('synsets', [])):
                # ILIs of their own, without definitions: the shared ILI inventory outlives a removal, so what a
                # re-added lexicon finds there depends on the history (set aside by C05, not a matter of C01)
                if y_.get('ili') not in ('', 'in', None):
                    y_['ili'] = f'if{k_}{j_}'
                    y_.pop('ili_definition', None)
        both = {'k': 'add', 'res': docs.resource([f1, f2], vf), '_mem': True, '_mem_id': 'm1'}
        ops += [dict(both), {'k': 'obs'}, {'k': 'remove', 'spec': 'f:1', '_removed': ['f:1']}, {'k': 'obs'}, dict(both), {'k': 'obs'}]
    return {'ops': ops, 'batch': rng.choice([None, 1, 2, 3, 7])}


def diff(a, b, path=''):
    """first difference between two JSON values"""
    if type(a) != type(b):
        return path, a, b
    if isinstance(a, dict):
        for k in sorted(set(a) | set(b)):
            if k.startswith('_'):
                continue
            if k not in a or k not in b:
                return f'{path}.{k}', a.get(k, '<absent>'), b.get(k, '<absent>')
            d = diff(a[k], b[k], f'{path}.{k}')
            if d:
                return d
        return None
    if isinstance(a, list):
        if len(a) != len(b):
            return path + '.len', a, b
        for i, (x, y) in enumerate(zip(a, b)):
            d = diff(x, y, f'{path}[{i}]')
            if d:
                return d
        return None
    return None if a == b else (path, a, b)


def installed_docs(scenario, outs):
    """[(spec, lexicon)] of the lexicons actually installed, in installation order"""
    inst = []
    for op, out in zip(scenario['ops'], outs):
        if op['k'] == 'add' and out.get('ok'):
            before = {s for s, _ in inst}      # _precheck looks at the database before the add
            for lx in op['res']['lexicons']:
                spec = f"{lx['id']}:{lx['version']}"
                if spec in before or spec in {s for s, _ in inst}:
                    continue
                if lx.get('extends') and f"{lx['extends']['id']}:{lx['extends']['version']}" not in before:
                    continue
                inst.append((spec, lx))
        elif op['k'] == 'remove' and isinstance(out, dict) and out.get('ok'):
            inst = [(s_, l_) for s_, l_ in inst if s_ not in op.get('_removed', [])]
    return inst


def scope_of(spec, inst):
    d = dict(inst)
    out = [(spec, d[spec])]
    cur = d[spec]
    while cur.get('extends'):
        b = f"{cur['extends']['id']}:{cur['extends']['version']}"
        if b not in d:
            break
        out.append((b, d[b]))
        cur = d[b]
    return out


def first_ili_info(inst):
    info = {}
    for spec, lx in inst:
        for y in lx.get('synsets', []):
            if y.get('external'):
                continue
            if y['ili'] not in ('', 'in') and y['ili'] not in info:
                d = y.get('ili_definition')
                info[y['ili']] = (d['text'] if d else None, store._m(d.get('meta') if d else None))
    return info


def strip_form_leak(got, exp, key, scope_spec, inst):
    """F12: tags / pronunciations that an installed extension *outside the observed scope* attaches to
    a lemma or an id-carrying form of this word are reported although the scope does not select that
    extension.  Returns the observation with exactly those items removed, and what was removed."""
    d = dict(inst)
    in_scope = {s for s, _ in scope_of(scope_spec, inst)}
    leaks = {}
    for xs, xl in inst:
        if xs in in_scope or not xl.get('extends'):
            continue
        if f"{xl['extends']['id']}:{xl['extends']['version']}" != key[0]:
            continue
        for e in xl.get('entries', []):
            if not e.get('external') or e['id'] != key[1]:
                continue
            if e.get('lemma'):
                leaks.setdefault('lemma', []).append(e['lemma'])
            for f in e.get('forms', []):
                if f.get('external'):
                    leaks.setdefault(f['id'], []).append(f)
    if not leaks:
        return got, None
    got = json.loads(json.dumps(got))
    removed = []
    for idx, f in enumerate(got['forms']):
        adds = leaks.get('lemma', []) if idx == 0 else leaks.get(f['id'], []) if f['id'] else []
        for a in adds:
            for t in a.get('tags', []):
                item = [t['text'], t['category']]
                if idx < len(exp['forms']) and f['tags'].count(item) > exp['forms'][idx]['tags'].count(item):
                    # the extension's rows were written after the form's own: take the surplus away from the end
                    del f['tags'][len(f['tags']) - 1 - f['tags'][::-1].index(item)]
                    removed.append(['tag', f['form'], item])
            for p in a.get('pronunciations', []):
                item = store._pron(p)
                if idx < len(exp['forms']) and f['prons'].count(item) > exp['forms'][idx]['prons'].count(item):
                    del f['prons'][len(f['prons']) - 1 - f['prons'][::-1].index(item)]
                    removed.append(['pronunciation', f['form'], item])
    return got, removed or None


def oracle(ctx, scenario, outs):
    inst = installed_docs(scenario, outs)
    obs = store.canon_obs(outs[-1])
    ili_info = first_ili_info(inst)
    if [o['spec'] for o in obs] != sorted(s for s, _ in inst):
        ctx.fail('installed-lexicons', scenario, {'got': [o['spec'] for o in obs], 'expected': sorted(s for s, _ in inst)})
        return
    for o in obs:
        spec = o['spec']
        lx = dict(inst)[spec]
        # lexicon attributes
        L = o['lexicon']
        for k, dk in (('id', 'id'), ('label', 'label'), ('language', 'language'), ('email', 'email'),
                      ('license', 'license'), ('version', 'version')):
            if L[k] != lx[dk]:
                ctx.fail('lexicon-attribute:' + k, scenario, {'spec': spec, 'got': L[k], 'expected': lx[dk]})
        for k in ('url', 'citation', 'logo'):
            if L[k] != lx.get(k):
                ctx.fail('lexicon-attribute:' + k, scenario, {'spec': spec, 'got': L[k], 'expected': lx.get(k)})
        if L['meta'] != store._m(lx.get('meta')):
            ctx.fail('lexicon-metadata', scenario, {'spec': spec, 'got': L['meta'], 'expected': store._m(lx.get('meta'))})
        exp = store.canon_scope(store.expected_scope(scope_of(spec, inst), dict(inst)))
        got = o['scope']
        for kind in ('words', 'senses', 'synsets'):
            ge = {(x['lexicon'], x['id']): x for x in got[kind]}
            ee = {(x['lexicon'], x['id']): x for x in exp[kind]}
            if sorted(ge) != sorted(ee):
                ctx.fail(f'{kind}:exactly-the-declared-ones', scenario,
                         {'scope': spec, 'missing': sorted(set(ee) - set(ge)), 'spurious': sorted(set(ge) - set(ee))})
                continue
            for key in ee:
                g_, e_ = dict(ge[key]), dict(ee[key])
                if kind == 'words':
                    g_, leaked = strip_form_leak(g_, e_, key, spec, inst)
                    if leaked:
                        ctx.fail('forms:tags-or-pronunciations-of-an-unselected-extension-are-reported', scenario,
                                 {'scope': spec, 'entity': list(key), 'leaked': leaked})
                if kind == 'synsets':
                    ei = e_['ili']
                    if isinstance(ei, dict) and ei.get('_status_definition_from_ili_table'):
                        t, m = ili_info.get(ei['id'], (None, {}))
                        e_['ili'] = {'id': ei['id'], 'status': 'presupposed', 'definition': t, 'meta': m}
                d = diff(g_, e_)
                if d:
                    ctx.fail(f'{kind}:field' + d[0].split('[')[0], scenario,
                             {'scope': spec, 'entity': list(key), 'path': d[0], 'got': d[1], 'expected': d[2]})


def process(ctx, scenarios):
    impls = store.run_impl(scenarios, [s.get('batch') for s in scenarios])
    models = leanside.run_driver([store.model_request(s) for s in scenarios]) if ctx.lean['driver_ok'] else [None] * len(scenarios)
    for sc, im, mo in zip(scenarios, impls, models):
        res = [op['res'] for op in sc['ops'] if op['k'] == 'add']
        kinds = set()
        for r in res:
            kinds |= kinds_present(r)
        for k in kinds:
            ctx.dist[k] += 1
        nlex = sum(len(r['lexicons']) for r in res)
        ctx.dist[f'lexicons={nlex}'] += 1
        for r in res:
            ctx.dist['lmf=' + r['lmf_version']] += 1
        ctx.dist[f'batch_size={sc.get("batch")}'] += 1
        ctx.case(sc['ops'] if (nlex >= 2 and len(kinds) >= 5) else None)
        if isinstance(im, dict) and 'exception' in im:
            ctx.fail('add-and-observe-without-exception', sc, im)
            continue
        for k, (op, o) in enumerate(zip(sc['ops'], im)):
            if op['k'] == 'add' and not o.get('ok'):
                ctx.fail('valid-resource-is-added', sc, {'op': k, 'error': o})
        store.judge_routes(ctx, sc, im)
        if mo is not None:
            for k, (op, oi, om) in enumerate(zip(sc['ops'], im, mo)):
                if op['k'] == 'obs':
                    d = diff(store.canon_obs(oi), store.canon_obs(om))
                    if d:
                        ctx.disagree(sc, d[1], d[2], f'obs{d[0]}')
                elif oi.get('ok') != om.get('ok'):
                    ctx.disagree(sc, oi, om, f'op[{k}].ok')
        if all(o.get('ok') for op, o in zip(sc['ops'], im) if op['k'] == 'add'):
            oracle(ctx, sc, im)
    return impls


def load_corpus():
    d = leanside.ROOT / 'corpus' / PID
    return [json.loads(f.read_text())['scenario'] for f in sorted(x for x in d.glob('*.json') if not x.name.startswith(('seeded-', 'regress-')))] if d.is_dir() else []


def run(ctx):
    n = 60 if ctx.tier == 'quick' else 1500
    scs = load_corpus() + [gen_scenario(ctx.rng, k) for k in range(n)]
    impls = process(ctx, scs)
    sc = scs[-1]
    ctx.sample({'lexicons': [[f"{lx['id']}:{lx['version']}", 'extension of ' + lx['extends']['id'] if lx.get('extends') else 'plain',
                              len(lx.get('entries', [])), len(lx.get('synsets', []))]
                             for op in sc['ops'] if op['k'] == 'add' for lx in op['res']['lexicons']],
                'lmf_version': sc['ops'][0]['res']['lmf_version'], 'batch_size': sc.get('batch'),
                'first_word_observed': (impls[-1][-1][0]['scope']['words'][:1] if isinstance(impls[-1], list) else None)})


def widen(ctx):
    process(ctx, [gen_scenario(ctx.rng, k) for k in range(400)])


def replay(ctx, scenario):
    process(ctx, [scenario])


def m_f12(clause, scenario, detail):
    return clause == 'forms:tags-or-pronunciations-of-an-unselected-extension-are-reported'


MATCHERS = {'f12_unscoped_tags_pronunciations': m_f12}
