"""C14 — similarity metrics equal their formulas, are symmetric and bounded."""
import math
from fractions import Fraction

import graphs as G
import leanside
from props import c13

PID = 'C14'
RULE = ('one evaluation = one hypernym graph, all ordered synset pairs x simulate_root (path, wup, lch) or one '
        '(graph, information-content weights) scenario, all ordered pairs (res, jcn, lin); non-trivial = the graph has a '
        'pair with >= 2 lowest common hypernyms, a node with >= 2 hypernyms or a cycle; distinct = distinct scenario')
ASSUMPTIONS = [
    'path and wup are single int/int divisions, hence correctly rounded: the float must equal num/den of the model\'s rational exactly',
    'lch must equal -math.log(num/den) computed in the same process; res/jcn/lin are compared within 1e-9 relative with the value the formula gives on the model\'s exact rationals',
    'IC-based metrics: hypernym relations stay inside one (a/s-folded) part of speech',
]
LCHD = 3


def nontrivial(g):
    f = G.features(g)
    return 'multi_parent' in f or 'cyclic' in f


# ---------------------------------------------------------------------------
# path / wup / lch

def judge_tax(ctx, g, impl, model):
    if 'exception' in impl:
        ctx.fail('terminates-without-unexpected-exception', g, impl)
        return
    n = g['n']
    adj = G.hyp_lists(g)
    cyclic = G.is_cyclic(g)
    chains = [G.max_chains(adj, x) for x in range(n)]
    dist = [G.bfs_dist(adj, x) for x in range(n)]
    for key, root in (('noroot', False), ('root', True)):
        o = impl[key]
        m = model[key] if model is not None else None
        for a in range(n):
            for b in range(n):
                e = o['pairs'][a * n + b]
                r = o['pairs'][b * n + a]
                s = o['pairs'][a * n + a]
                where = {'a': a, 'b': b, 'simulate_root': root}
                if m is not None:
                    mm = m['pairs'][a * n + b]
                    if not G.float_matches(e['path'], mm['path']):
                        ctx.disagree(g, e['path'], mm['path'], f'{key}.path({a},{b})')
                    if not G.float_matches(e['wup'], mm['wup']):
                        ctx.disagree(g, e['wup'], mm['wup'], f'{key}.wup({a},{b})')
                    if not G.float_matches(e['lch'], mm['lch'], neglog=True):
                        ctx.disagree(g, e['lch'], mm['lch'], f'{key}.lch({a},{b})')
                compat = G.fold(g['pos'][a]) == G.fold(g['pos'][b])
                if not compat:
                    for f in ('path', 'wup', 'lch'):
                        if e[f] != 'error':
                            ctx.fail('incompatible-pos-raises-wn.Error', g, dict(where, metric=f, got=e[f]))
                    continue
                sp = e['sp']
                # the true distance in the graph: over a common ancestor, or over the simulated root
                cand_ = [dist[a][z] + dist[b][z] for z in (set(dist[a]) & set(dist[b]))]
                if root:
                    cand_.append(min([len(p) for p in chains[a]] or [0]) + 1 + min([len(p) for p in chains[b]] or [0]) + 1)
                true_d = min(cand_) if cand_ else None
                if e['path'] != 'error':
                    exp_true = 0.0 if true_d is None else 1 / (true_d + 1)
                    if e['path'] != exp_true:
                        ctx.fail('path=1/(distance-in-the-hypernym-graph+1),0-when-unconnected', g, dict(where, got=e['path'], expected=exp_true))
                # path
                if e['path'] == 'error':
                    ctx.fail('path-never-errors-for-compatible-pos', g, where)
                else:
                    exp = 0.0 if sp == 'error' else 1 / (len(sp) + 1)
                    if e['path'] != exp:
                        ctx.fail('path=1/(len(shortest_path)+1)', g, dict(where, got=e['path'], expected=exp))
                    if not (0 <= e['path'] <= 1) or (e['path'] == 1) != (a == b) or (e['path'] == 0) != (sp == 'error'):
                        ctx.fail('path-range-and-extremes', g, dict(where, got=e['path']))
                    if r['path'] != e['path']:
                        ctx.fail('path-symmetric', g, dict(where, ab=e['path'], ba=r['path']))
                    if s['path'] != 'error' and e['path'] > s['path']:
                        ctx.fail('path-self-is-maximal', g, dict(where, got=e['path'], self=s['path']))
                # wup
                lows = e['lowest']
                if not lows:
                    if e['wup'] != 'error':
                        ctx.fail('wup-errors-without-common-hypernym', g, dict(where, got=e['wup']))
                elif e['wup'] == 'error':
                    ctx.fail('wup-defined-with-common-hypernym', g, where)
                else:
                    if not (0 < e['wup'] <= 1):
                        ctx.fail('wup-in-(0,1]', g, dict(where, got=e['wup']))
                    if a == b and e['wup'] != 1:
                        ctx.fail('wup-self-is-1', g, dict(where, got=e['wup']))
                    if r['wup'] != e['wup']:
                        ctx.fail('wup-symmetric', g, dict(where, ab=e['wup'], ba=r['wup']))
                    # the documented formula for one of the lowest common hypernyms (the set itself
                    # is judged by C13; on cyclic graphs 'depth' is what the library reports)
                    cands = []
                    droot = lambda x: min([len(p) for p in chains[x]] or [0]) + 1
                    for c in lows:
                        if c == -1:
                            i, j, k = droot(a), droot(b), 1
                        else:
                            # "shortest path distance" = len(shortest_path(x, lcs)), which may
                            # run through another common hypernym of x and lcs (or the fake root)
                            def splen(x, y):
                                v = [dist[x][z] + dist[y][z] for z in (set(dist[x]) & set(dist[y]))]
                                if root:
                                    v.append(droot(x) + droot(y))
                                return min(v) if v else None
                            i, j = splen(a, c), splen(b, c)
                            if i is None or j is None:
                                ctx.fail('wup:reported-lowest-common-hypernym-is-connected-to-both-synsets', g, dict(where, lcs=c))
                                continue
                            ls = [len(p) for p in chains[c]]
                            k = (max(ls) if ls else 0) + 1
                        cands.append((2 * k) / (i + j + 2 * k))
                    if e['wup'] not in cands:
                        ctx.fail('wup=2k/(i+j+2k)-for-a-lowest-common-hypernym', g, dict(where, got=e['wup'], candidates=cands))
                # lch
                if sp == 'error':
                    if e['lch'] != 'error':
                        ctx.fail('lch-errors-when-unconnected', g, dict(where, got=e['lch']))
                elif e['lch'] == 'error':
                    ctx.fail('lch-defined-when-connected', g, where)
                else:
                    exp = -math.log((len(sp) + 1) / (2 * LCHD))
                    if e['lch'] != exp:
                        ctx.fail('lch=-log((p+1)/(2d))', g, dict(where, got=e['lch'], expected=exp))
                    if r['lch'] != e['lch']:
                        ctx.fail('lch-symmetric', g, dict(where, ab=e['lch'], ba=r['lch']))
                    if s['lch'] != 'error' and e['lch'] > s['lch']:
                        ctx.fail('lch-self-is-maximal', g, dict(where, got=e['lch'], self=s['lch']))


# ---------------------------------------------------------------------------
# res / jcn / lin

def ic_of(p):
    return -math.log(p)


def judge_ic(ctx, sc, impl, model, tax):
    """tax: the taxonomy observation of the same graph (for the oracle's lowest/common sets
    an independent computation is used)"""
    g = sc['graph']
    n = g['n']
    if 'exception' in impl:
        ctx.fail('terminates-without-unexpected-exception', sc, impl)
        return
    adj = G.hyp_lists(g)
    cyclic = G.is_cyclic(g)
    anc = [G.ancestors_star(adj, x) for x in range(n)]
    chains = [G.max_chains(adj, x) for x in range(n)]

    def depth(c):
        ls = [len(p) for p in chains[c]]
        return max(ls) if ls else 0
    w = impl['node']
    tot = impl['total']

    def prob(i):
        return w[i] / tot[G.fold(g['pos'][i])]
    usable = all(x is not None and x > 0 for x in w) and all(tot[G.fold(p)] > 0 for p in g['pos'])
    for a in range(n):
        for b in range(n):
            e = impl['pairs'][a * n + b]
            r = impl['pairs'][b * n + a]
            where = {'a': a, 'b': b}
            common = sorted(anc[a] & anc[b])
            if not common:
                for f in ('res', 'jcn', 'lin'):
                    if e[f] != 'error':
                        ctx.fail('ic-metric-errors-without-common-hypernym', sc, dict(where, metric=f, got=e[f]))
                continue
            if not usable:
                continue
            for f in ('res', 'jcn', 'lin'):
                if isinstance(e[f], str):
                    if f == 'lin' and e[f] == 'exc:ZeroDivisionError' and ic_of(prob(a)) + ic_of(prob(b)) == 0:
                        # hostile weights (probability > 1 on one side): the documented formula itself has a zero
                        # denominator, so no value is specified
                        ctx.dist['lin-undefined(ic1+ic2=0)'] += 1
                        continue
                    ctx.fail('ic-metric-defined-with-common-hypernym', sc, dict(where, metric=f, got=e[f]))
                elif isinstance(r[f], str) or not G.close(e[f], r[f]):
                    ctx.fail(f'{f}-symmetric', sc, dict(where, ab=e[f], ba=r[f]))
            if any(isinstance(e[f], str) for f in ('res', 'jcn', 'lin')):
                continue
            # --- correspondence with the model's choice of c0 (most informative LCS)
            if model is not None:
                c0 = model['lcs'][a * n + b]
                if c0 >= 0:
                    mw = [Fraction(x[0], x[1]) for x in model['node']]
                    mt = {p: Fraction(v[0], v[1]) for p, v in model['total'].items()}
                    pp = lambda i: float(mw[i] / mt[G.fold(g['pos'][i])])
                    ic1, ic2, ic0 = ic_of(pp(a)), ic_of(pp(b)), ic_of(pp(c0))
                    if not G.close(e['res'], ic0):
                        ctx.disagree(sc, e['res'], ic0, f'res({a},{b})')
                    exact_eq = (mw[a] / mt[G.fold(g['pos'][a])]) * (mw[b] / mt[G.fold(g['pos'][b])]) == (mw[c0] / mt[G.fold(g['pos'][c0])]) ** 2
                    if ic1 == ic2 == ic0 == 0:
                        mj = 0
                    elif exact_eq or ic1 + ic2 == 2 * ic0:
                        mj = math.inf
                    else:
                        mj = 1 / (ic1 + ic2 - 2 * ic0)
                    okj = G.close(e['jcn'], mj) or (math.isinf(mj) and abs(e['jcn']) > 1e9) or \
                        (math.isinf(e['jcn']) and abs(mj) > 1e9)
                    if not okj:
                        ctx.disagree(sc, e['jcn'], mj, f'jcn({a},{b})')
                    ml = 0.0 if (ic1 == 0 or ic2 == 0) else 2 * ic0 / (ic1 + ic2)
                    if not G.close(e['lin'], ml, 1e-7):
                        ctx.disagree(sc, e['lin'], ml, f'lin({a},{b})')
            # --- oracle: documented formulas
            ics = {c: ic_of(prob(c)) for c in common}
            expres = max(ics.values())
            if not G.close(e['res'], expres, 1e-9):
                lows = tax['noroot']['pairs'][a * n + b]['lowest']
                ctx.fail('res=max-IC-over-common-subsumers', sc,
                         dict(where, got=e['res'], expected=expres, lowest=lows,
                              ic_of_lowest=[ics.get(c) for c in lows]))
            if not cyclic:
                md = max(depth(c) for c in common) if a != b else None
                lows = [c for c in common if depth(c) == md] if a != b else [a]
                mw_ = max(w[c] for c in lows)
                c0s = [c for c in lows if w[c] == mw_]
                ic1, ic2 = ic_of(prob(a)), ic_of(prob(b))
                okj = okl = False
                for c0 in c0s:
                    ic0 = ic_of(prob(c0))
                    if ic1 == ic2 == ic0 == 0:
                        ej = 0
                    elif abs(ic1 + ic2 - 2 * ic0) < 1e-12:
                        ej = math.inf
                    else:
                        ej = 1 / (ic1 + ic2 - 2 * ic0)
                    if G.close(e['jcn'], ej, 1e-6) or (math.isinf(ej) and (math.isinf(e['jcn']) or abs(e['jcn']) > 1e9)) \
                            or (math.isinf(e['jcn']) and abs(ej) > 1e9):
                        okj = True
                    el = 0.0 if (ic1 == 0 or ic2 == 0) else 2 * ic0 / (ic1 + ic2)
                    if G.close(e['lin'], el, 1e-7):
                        okl = True
                if not okj:
                    ctx.fail('jcn=1/(IC1+IC2-2IC0)', sc, dict(where, got=e['jcn']))
                if not okl:
                    ctx.fail('lin=2IC0/(IC1+IC2)', sc, dict(where, got=e['lin']))


def m_f19(clause, scenario, detail):
    """F19: res returns the IC of the highest-*weight* lowest common hypernym, which is
    smaller than the maximum IC over the common subsumers."""
    if clause != 'res=max-IC-over-common-subsumers':
        return False
    if detail['got'] >= detail['expected']:
        return False
    return any(x is not None and G.close(detail['got'], x) for x in detail['ic_of_lowest'])


MATCHERS = {'f19_res_highest_weight_lcs': m_f19}


def process_tax(ctx, gs):
    impl = G.run_impl(gs, [LCHD] * len(gs))
    model = leanside.run_driver([G.model_request(g, LCHD) for g in gs]) if ctx.lean['driver_ok'] else [None] * len(gs)
    for g, i, m in zip(gs, impl, model):
        for f in G.features(g):
            ctx.dist[f] += 1
        two = 'exception' not in i and any(len(p['lowest']) >= 2 for p in i['noroot']['pairs'])
        if two:
            ctx.dist['pair-with->=2-lowest-common-hypernyms'] += 1
        ctx.case(('tax', g['n'], g['edges'], g['pos']) if (nontrivial(g) or two) else None)
        judge_tax(ctx, g, i, m)
    return impl


def process_ic(ctx, scs):
    gs = [sc['graph'] for sc in scs]
    tax = G.run_impl(gs, [LCHD] * len(gs))
    impl = G.run_impl_ic(scs)
    model = leanside.run_driver([G.ic_model_request(sc) for sc in scs]) if ctx.lean['driver_ok'] else [None] * len(scs)
    for sc, i, m, t in zip(scs, impl, model, tax):
        ctx.dist['ic:' + sc['mode']] += 1
        ctx.case(('ic', sc) if nontrivial(sc['graph']) else None)
        if 'exception' in t:
            ctx.fail('terminates-without-unexpected-exception', sc, t)
            continue
        judge_ic(ctx, sc, i, m, t)
    return impl


def gen_ic(ctx, k):
    out = []
    for _ in range(k):
        sc = G.random_ic_scenario(ctx.rng, 7 if ctx.tier == 'quick' else 9)
        if sc['smoothing'][0] == 0:
            sc['smoothing'] = [1, 1]
        if len(sc['graph']['edges']) <= 20:
            out.append(sc)
    return out


def load_corpus(ctx):
    import json
    out = {'tax': [], 'ic': []}
    d = leanside.ROOT / 'corpus' / PID
    if d.is_dir():
        for f in sorted(x for x in d.glob('*.json') if not x.name.startswith(('seeded-', 'regress-'))):
            j = json.loads(f.read_text())
            out[j.get('kind', 'ic')].append(j['scenario'])
    return out


def run(ctx):
    corp = load_corpus(ctx)
    gs = corp['tax'] + c13.gen(ctx)
    impl = process_tax(ctx, gs)
    scs = corp['ic'] + gen_ic(ctx, 150 if ctx.tier == 'quick' else 2500)
    iimpl = process_ic(ctx, scs)
    ctx.sample({'graph': gs[-1], 'pairs(noroot)': impl[-1].get('noroot', {}).get('pairs', [])[:4]})
    ctx.sample({'scenario': scs[-1], 'pairs': iimpl[-1].get('pairs', [])[:4]})


def widen(ctx):
    process_tax(ctx, [g for g in (G.random_graph(ctx.rng, 10) for _ in range(800)) if len(g['edges']) <= 22])
    process_ic(ctx, gen_ic(ctx, 800))


def replay(ctx, scenario):
    if 'graph' in scenario:
        process_ic(ctx, [scenario])
    else:
        process_tax(ctx, [scenario])
