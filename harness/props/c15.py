"""C15 — information-content weights are conserved, counted once and monotone."""
import math
from fractions import Fraction

import graphs as G
import leanside

PID = 'C15'
RULE = ('one evaluation = one (hypernym graph, vocabulary, corpus, distribute_weight, smoothing) scenario run through '
        'wn.ic.compute and compared node by node with the exact rationals of the Lean model; non-trivial = the graph has a '
        'node with >= 2 hypernyms (converging paths) or a cycle and the corpus contains a word found in the wordnet; '
        'distinct = distinct scenario')
ASSUMPTIONS = [
    'hypernym relations stay inside one (a/s-folded) part of speech: compute() indexes freq[pos] of the word synset with the ids of its ancestors',
    'floats are compared with the exact rationals within 1e-9 relative (the order of float additions is the library\'s own)',
]


def gen(ctx, k):
    out = []
    for _ in range(k):
        sc = G.random_ic_scenario(ctx.rng, 8 if ctx.tier == 'quick' else 10)
        sc['mode'] = 'corpus'
        sc.pop('weights', None)
        sc.pop('total', None)
        if len(sc['graph']['edges']) <= 22:
            if len(out) % 4 == 1:
                # an extension of the lexicon is installed but not selected: it hangs new synsets above and below the
                # base's and adds hypernym links between base synsets through them — none of which compute() may see
                import copy
                g0 = sc['graph']
                xg = copy.deepcopy(g0)
                n0, m_ = g0['n'], ctx.rng.randint(1, 3)
                xg['n'] = n0 + m_
                xg['pos'] = list(g0['pos']) + [g0['pos'][0]] * m_
                for j_ in range(n0, n0 + m_):
                    for b_ in ctx.rng.sample(range(n0), min(n0, ctx.rng.randint(1, 2))):
                        xg['edges'].append([b_, j_, 'hypernym'])
                    for b_ in ctx.rng.sample(range(n0), min(n0, ctx.rng.randint(1, 2))):
                        xg['edges'].append([j_, b_, 'hypernym'])
                xg['split'] = n0
                sc['xgraph'] = xg
            out.append(sc)
    return out


def fixed_scenarios():
    dia = G.mk(4, [(0, 1, 'hypernym'), (0, 2, 'hypernym'), (1, 3, 'hypernym'), (2, 3, 'hypernym')],
               words={'w0': [0], 'w3': [3], 'amb': [0, 1]})
    deep = G.mk(6, [(0, 1, 'hypernym'), (0, 2, 'hypernym'), (1, 3, 'hypernym'), (2, 3, 'hypernym'),
                    (3, 4, 'hypernym'), (3, 5, 'hypernym'), (4, 5, 'instance_hypernym')],
                words={'w0': [0], 'x': [0, 3]})
    cyc = G.mk(3, [(0, 1, 'hypernym'), (1, 2, 'hypernym'), (2, 0, 'hypernym'), (1, 1, 'hypernym')],
               words={'w0': [0], 'w1': [1]})
    sat = G.mk(3, [(0, 1, 'hypernym'), (1, 2, 'hypernym')], pos=['s', 'a', 's'], words={'w0': [0], 'w2': [2]})
    res = []
    for g, corpus in ((dia, ['w0', 'w0', 'amb', 'nope']), (deep, ['w0', 'x', 'x', 'x']),
                      (cyc, ['w0', 'w1', 'w1']), (sat, ['w0', 'w2', 'w0'])):
        for dist in (True, False):
            for sm in ([1, 1], [0, 1], [1, 2]):
                res.append({'graph': g, 'corpus': corpus, 'distribute': dist, 'smoothing': sm, 'mode': 'corpus'})
    return res


def expected(sc):
    """the statement, evaluated independently (Fractions, BFS ancestors)"""
    g = sc['graph']
    n = g['n']
    adj = G.hyp_lists(g)
    sm = Fraction(*sc['smoothing'])
    node = [sm] * n
    total = {p: sm for p in G.IC_POS}
    counts = {}
    for t in sc['corpus']:
        counts[t] = counts.get(t, 0) + 1
    for t, c in counts.items():
        syns = G.ic_lookup(g, t)
        if not syns:
            continue
        wgt = Fraction(c, len(syns)) if sc['distribute'] else Fraction(c)
        for s in syns:
            p = G.fold(g['pos'][s])
            if p not in G.IC_POS:
                continue
            total[p] += wgt
            for c_ in G.ancestors_star(adj, s):
                node[c_] += wgt
    return node, total


def judge(ctx, sc, impl, model):
    g = sc['graph']
    n = g['n']
    if 'exception' in impl:
        ctx.fail('compute-terminates-without-exception', sc, impl)
        return
    if model is not None:
        for i in range(n):
            q = Fraction(model['node'][i][0], model['node'][i][1])
            if impl['node'][i] is None or not G.close(impl['node'][i], float(q)):
                ctx.disagree(sc, impl['node'], model['node'], f'weight[{i}]')
                break
        for p in G.IC_POS:
            q = Fraction(model['total'][p][0], model['total'][p][1])
            if not G.close(impl['total'][p], float(q)):
                ctx.disagree(sc, impl['total'], model['total'], f'total[{p}]')
    node, total = expected(sc)
    adj = G.hyp_lists(g)
    for p in G.IC_POS:
        if not G.close(impl['total'][p], float(total[p])):
            ctx.fail('total=smoothing+sum-of-found-word-weights', sc, {'pos': p, 'got': impl['total'][p], 'expected': str(total[p])})
        exp_keys = [f'{i}' for i in range(n) if G.fold(g['pos'][i]) == p]
        got_keys = sorted(k.split('-')[-1] for k in impl['keys'][p])
        if sorted(exp_keys) != got_keys:
            ctx.fail('every-synset-of-the-pos-has-a-weight(s-as-a)', sc, {'pos': p, 'got': impl['keys'][p]})
    for i in range(n):
        if impl['node'][i] is None:
            continue
        if not G.close(impl['node'][i], float(node[i])):
            ctx.fail('weight=smoothing+sum-once-per-word-synset', sc, {'node': i, 'got': impl['node'][i], 'expected': str(node[i])})
        for h in adj[i]:
            if impl['node'][h] is not None and impl['node'][h] < impl['node'][i] - 1e-9:
                ctx.fail('weights-never-decrease-going-up', sc, {'node': i, 'hypernym': h, 'w': impl['node'][i], 'wh': impl['node'][h]})
        if sc['smoothing'][0] > 0:
            pr = impl['prob'][i]
            if isinstance(pr, str) or not (0 < pr <= 1 + 1e-12):
                ctx.fail('synset-probability-in-(0,1]', sc, {'node': i, 'got': pr})


def process(ctx, scs):
    impl = G.run_impl_ic(scs)
    model = leanside.run_driver([G.ic_model_request(sc) for sc in scs]) if ctx.lean['driver_ok'] else [None] * len(scs)
    for sc, i, m in zip(scs, impl, model):
        g = sc['graph']
        feats = G.features(g)
        found = any(G.ic_lookup(g, t) for t in sc['corpus'])
        for f in feats:
            ctx.dist[f] += 1
        ctx.dist['distribute' if sc['distribute'] else 'no-distribute'] += 1
        ctx.dist['smoothing=0' if sc['smoothing'][0] == 0 else 'smoothing>0'] += 1
        if any(not G.ic_lookup(g, t) for t in sc['corpus']):
            ctx.dist['unknown-words'] += 1
        if 's' in g['pos']:
            ctx.dist['satellite-adjectives'] += 1
        if any(t not in g['words'] and G.ic_lookup(g, t) for t in sc['corpus']):
            ctx.dist['token-found-by-normalized-pass'] += 1
        if len({w.lower() for w in g['words']}) < len(g['words']):
            ctx.dist['case-variant-forms'] += 1
        nontriv = found and ('multi_parent' in feats or 'cyclic' in feats)
        ctx.case(sc if nontriv else None)
        judge(ctx, sc, i, m)
    return impl


def load_check(ctx):
    """C15 also covers load(): a WordNet::Similarity weights file gives the same structure"""
    import wnenv, tempfile, os
    wn = wnenv.wn
    import wn.ic
    g = G.mk(4, [(0, 1, 'hypernym'), (2, 1, 'hypernym'), (1, 3, 'hypernym')], pos=['n', 'n', 'n', 'v'])
    wnenv.fresh_db()
    d = wnenv.workdir()
    try:
        # ids in the form expected by the default formatter: <lexid>-<offset:08>-<pos>
        xml = G.HDR + '<Lexicon id="k" label="k" language="en" email="a@b.c" license="l" version="1">\n'
        ids = ['k-00000001-n', 'k-00000002-n', 'k-00000003-n', 'k-00000004-v']
        hyp = {0: [1], 2: [1]}
        for i, sid in enumerate(ids):
            rels = ''.join(f'<SynsetRelation target="{ids[t]}" relType="hypernym"/>' for t in hyp.get(i, []))
            xml += f'<Synset id="{sid}" ili="" partOfSpeech="{sid[-1]}">{rels}</Synset>\n'
        xml += '</Lexicon>\n</LexicalResource>\n'
        (d / 'k.xml').write_text(xml)
        wn.add(d / 'k.xml', progress_handler=None)
        w = wn.Wordnet('k:1')
        exp = {'n': {ids[0]: 5.0, ids[1]: 7.0, ids[2]: 2.5, None: 7.0}, 'v': {ids[3]: 3.0, None: 3.0},
               'a': {None: 0.0}, 'r': {None: 0.0}}
        # the same weights in the column layouts such files come in: single blanks, tabs, aligned columns,
        # trailing blanks, CRLF line ends
        layouts = {'single-blank': 'wnver::x\n1n 5\n2n 7 ROOT\n3n 2.5\n4v 3 ROOT\n',
                   'tabs': 'wnver::x\n1n\t5\n2n\t7\tROOT\n3n\t2.5\n4v\t3\tROOT\n',
                   'aligned': 'wnver::x\n1n    5\n2n    7   ROOT\n3n    2.5\n4v    3   ROOT\n',
                   'trailing-blank': 'wnver::x\n1n 5 \n2n 7 ROOT \n3n 2.5 \n4v 3 ROOT\n',
                   'crlf': 'wnver::x\r\n1n 5\r\n2n 7 ROOT\r\n3n 2.5\r\n4v 3 ROOT\r\n'}
        for name, text in layouts.items():
            (d / 'ic.dat').write_bytes(text.encode('ascii'))
            ctx.case('load-file:' + name)
            try:
                freq = wn.ic.load(d / 'ic.dat', w)
            except Exception as e:
                freq = 'raised ' + type(e).__name__ + ': ' + str(e)[:100]
            if freq != exp:
                ctx.fail('load()-yields-the-same-structure', {'file': 'ic.dat', 'layout': name, 'text': text}, {'got': str(freq), 'expected': str(exp)})
    finally:
        import shutil
        shutil.rmtree(d, ignore_errors=True)
        wnenv.cleanup()


def run(ctx):
    scs = fixed_scenarios() + gen(ctx, 220 if ctx.tier == 'quick' else 3000)
    impl = process(ctx, scs)
    load_check(ctx)
    for sc, i in list(zip(scs, impl))[-2:]:
        ctx.sample({'scenario': sc, 'weights': i.get('node'), 'totals': i.get('total')})


def widen(ctx):
    process(ctx, gen(ctx, 1500))


def replay(ctx, scenario):
    process(ctx, [scenario])


MATCHERS = {}
