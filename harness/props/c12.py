"""C12 — relations borrowed through expand lexicons are mapped by ILI as documented."""
import json

import docs
import leanside
import multi
import store

PID = 'C12'
RULE = ('one evaluation = one battery of a Wordnet over lexicon L with an expand setting in {default, "", one, several, "*"} on a database '
        'where L and the expand lexicons share ILIs only partially (L misses concepts, has several synsets per ILI, synsets without or with '
        'proposed ILI, relations of its own), dependencies declared or not, installed or missing; relations / get_related / hypernyms of every '
        'synset of L, the expand set and the warning are judged against the documents; non-trivial = some synset of L borrows a relation; '
        'distinct = distinct (database, expand setting)')
ASSUMPTIONS = ['relation_map() is a dict keyed by Relation: for many-to-many ILI matches each reported pair must be expected and the key set complete; get_related() must list every expected target']


def gen(rng):
    g = docs.Gen(rng, hostile=0.03, rich=0.4)
    v = '1.3'
    pool = [f'i{k}' for k in range(1, 6)]
    # the providers come from files of any WN-LMF version (a 1.0 file cannot declare dependencies itself)
    ve, ve2 = rng.choice(['1.0', '1.3']), rng.choice(['1.0', '1.1', '1.3'])
    e = g.lexicon('e', '1', ve, n_syn=rng.randint(4, 7), n_ent=1, lang='en', ili_pool=pool)
    ys = e['synsets']
    for i, y in enumerate(ys):       # a hypernym backbone plus extra relations inside e
        rels = y.setdefault('relations', [])
        if i + 1 < len(ys):
            rels.append({'target': ys[i + 1]['id'], 'relType': 'hypernym', 'meta': None})
        if rng.random() < 0.4:
            rels.append({'target': rng.choice(ys)['id'], 'relType': rng.choice(['similar', 'also', 'instance_hypernym']), 'meta': {'note': 'x'}})
    declare = rng.random() < 0.7
    reqs = []
    if declare:
        reqs.append({'id': 'e', 'version': '1'})
    if rng.random() < 0.5:
        reqs.append({'id': 'zz', 'version': '0'})
    L = g.lexicon('b', '1', v, n_syn=rng.randint(3, 6), n_ent=2, lang='de', ili_pool=pool, requires=reqs or None)
    u = g.lexicon('u', '1', v, n_syn=3, n_ent=1, lang='ja', ili_pool=pool)
    # a second version of the expand lexicon and a lexicon that requires it (and a version that is not installed):
    # the selected lexicons then declare different versions of one provider id
    e2 = g.lexicon('e', '2', ve2, n_syn=rng.randint(2, 4), n_ent=1, lang='en', ili_pool=pool)
    for y in e2['synsets']:
        y['id'] = y['id'].replace('e-', 'e2-', 1)
    for en in e2.get('entries', []):
        for sn in en.get('senses', []):
            sn['synset'] = sn['synset'].replace('e-', 'e2-', 1)
            for r in sn.get('relations', []):
                r['target'] = r['target'].replace('e-ss', 'e2-ss', 1) if r['target'].startswith('e-ss') else r['target']
    for y in e2['synsets']:
        for r in y.get('relations', []):
            r['target'] = r['target'].replace('e-', 'e2-', 1)
        if 'members' in y:
            pass
    c = g.lexicon('c', '1', v, n_syn=rng.randint(2, 4), n_ent=1, lang='de', ili_pool=pool,
                  requires=[{'id': 'e', 'version': '2'}] + ([{'id': 'e', 'version': '3'}] if rng.random() < 0.5 else []))
    W = {'e:1': e, 'b:1': L, 'u:1': u, 'e:2': e2, 'c:1': c}
    order = rng.choice([['e:1', 'b:1', 'u:1', 'e:2', 'c:1'], ['b:1', 'u:1', 'e:1', 'c:1', 'e:2'], ['b:1', 'u:1', 'c:1'], ['e:2', 'c:1', 'b:1', 'e:1']])
    vers = {'e:1': ve, 'e:2': ve2}
    ops = [multi.add_op(W, [s], vers.get(s, v)) for s in order]
    exps = [None, '', 'e:1', 'e:1 u:1', '*', 'u:1']
    if rng.random() < 0.5:
        # the expand lexicon is another version of L itself: same synset ids and ILIs, more relations
        import copy
        L2 = copy.deepcopy(L)
        L2['version'] = '2'
        L2.pop('requires', None)
        ys2 = L2['synsets']
        for i, y in enumerate(ys2[:-1]):
            y.setdefault('relations', []).append({'target': ys2[i + 1]['id'], 'relType': 'hypernym', 'meta': None})
        W['b:2'] = L2
        ops.append(multi.add_op(W, ['b:2'], v))
        exps += ['b:2', 'e:1 b:2']
    for ex in exps:
        op = {'k': 'battery', 'lexicon': 'b:1'}
        if ex is not None:
            op['expand'] = ex
        ops.append(op)
    ops.append({'k': 'battery', 'lexicon': 'b:1 c:1'})      # dependencies on two versions of one id
    ops.append({'k': 'battery', 'lexicon': 'c:1 b:1'})
    ops.append({'k': 'battery'})       # unrestricted: expands over all lexicons
    if 'e:1' in order and rng.random() < 0.6:
        # the provider is removed (the declared dependency stays, unlinked) and installed again (linked again)
        ops.append({'k': 'remove', 'spec': 'e:1', '_removed': ['e:1']})
        ops.append({'k': 'battery', 'lexicon': 'b:1'})
        ops.append(multi.add_op(W, ['e:1'], ve))
        ops.append({'k': 'battery', 'lexicon': 'b:1'})
        ops.append({'k': 'battery', 'lexicon': 'b:1', 'expand': 'e:1'})
    return {'ops': ops}


def judge(ctx, sc, im):
    for k, op in enumerate(sc['ops']):
        if op['k'] != 'battery':
            continue
        args = {a: v for a, v in op.items() if a != 'k'}
        if isinstance(im[k], dict):
            for x in im[k]['scope'].get('synsets_x', []):
                if x.get('_target_ili_bad'):
                    ctx.fail('a-relation-target(stored-or-placeholder)-carries-the-ILI-it-was-mapped-by', sc,
                             {'args': args, 'source': x['ref'], '[target, ili property]': x['_target_ili_bad']})
                    break
        inst = multi.installed_after(sc, im, k)
        d = dict(inst)
        default_mode = not args.get('lexicon') and not args.get('lang')
        # expected expand set
        if 'expand' in args:
            want = args['expand'].split()
            expE = [s for s, _ in inst] if '*' in want else [s for s in want if s in d]
            if want and not expE:
                if im[k] != 'error':
                    ctx.fail('expand-matching-no-lexicon-is-an-error', sc, {'args': args, 'got': im[k] if im[k] == 'error' else im[k]['E']})
                continue
            exp_missing = []
        elif default_mode:
            expE = [s for s, _ in inst]
            exp_missing = []
        else:
            deps = []
            for sp in args['lexicon'].split():
                for r in d[sp].get('requires', []) if sp in d else []:
                    if f"{r['id']}:{r['version']}" not in deps:
                        deps.append(f"{r['id']}:{r['version']}")
            expE = [s for s in deps if s in d]
            exp_missing = [s for s in deps if s not in d]
        if im[k] == 'error':
            ctx.fail('wordnet-construction-succeeds', sc, {'args': args})
            continue
        b = store.canon_battery(im[k])
        if sorted(b['E']) != sorted(expE):
            ctx.fail('expand-set=declared-installed-dependencies-or-as-requested', sc, {'args': args, 'got': b['E'], 'expected': expE})
            continue
        if sorted(b['missing']) != sorted(exp_missing):
            ctx.fail('warning-lists-exactly-the-missing-dependencies', sc, {'args': args, 'got': b['missing'], 'expected': exp_missing})
        S = [s for s, _ in inst] if default_mode else b['S']
        # own relations (C11's oracle) ...
        own = store.canon_scope(store.expected_scope([(s, d[s]) for s in S if s in d], d))
        own_syn = {(y['lexicon'], y['id']): y for y in own['synsets']}
        # ... plus borrowed ones
        ili = {}
        for s, lx in inst:
            for y in lx.get('synsets', []):
                if not y.get('external'):
                    ili[(s, y['id'])] = y['ili'] if y['ili'] not in ('', 'in') else None
        got_syn = {(y['lexicon'], y['id']): y for y in b['scope']['synsets']}
        got_x = {tuple(x['ref'][:2]): x for x in b['scope']['synsets_x']}
        for x in b['scope']['synsets_x']:
            if x['tax_paths'] != x['hypernym_paths']:
                ctx.fail('hypernym_paths()=maximal-chains-over-the-(expanded)-hypernym-relations-of-this-wordnet', sc,
                         {'args': args, 'synset': x['ref'], 'hypernym_paths()': x['tax_paths'], 'relation_paths(hypernym, instance_hypernym)': x['hypernym_paths']})
        borrowed_any = False
        for key, y in own_syn.items():
            if key not in got_syn:
                continue
            my = ili.get(key)
            lexids = multi.family(key[0], inst) if default_mode else set(S)
            exp_pairs = [(tuple(r[:4]), tuple(t[:2])) for r, t in y['relations']]
            if my is not None and expE:
                for (es, eid), ei in ili.items():
                    if es not in expE or ei != my or (es, eid) == key:
                        continue
                    # relations declared on (es, eid) by lexicons of E, with targets in E
                    src_scope = store.canon_scope(store.expected_scope([(s, d[s]) for s in expE], d))
                    for yy in src_scope['synsets']:
                        if (yy['lexicon'], yy['id']) != (es, eid):
                            continue
                        for r, t in yy['relations']:
                            ti = ili.get(tuple(t[:2]))
                            if ti is None:
                                continue
                            locs = sorted(kk for kk, ii in ili.items() if ii == ti and kk[0] in lexids)
                            if locs:
                                for lk in locs:
                                    exp_pairs.append((tuple(r[:4]), lk))
                            else:
                                exp_pairs.append((tuple(r[:4]), (key[0], '*INFERRED*:' + ti)))
                            borrowed_any = True

            def tref(t):
                return (t[0], '*INFERRED*:' + t[2]) if t[1] == '*INFERRED*' else tuple(t[:2])
            got_pairs = [(tuple(r[:4]), tref(t)) for r, t in got_syn[key]['relations']]
            if not set(got_pairs) <= set(exp_pairs):
                ctx.fail('every-reported-relation-is-own-or-borrowed-as-documented', sc,
                         {'args': args, 'synset': list(key), 'unexpected': sorted(set(got_pairs) - set(exp_pairs))[:4]})
            if {p[0] for p in got_pairs} != {p[0] for p in exp_pairs}:
                ctx.fail('every-own-and-borrowed-relation-is-reported(source,target,lexicon-of-the-expand-lexicon)', sc,
                         {'args': args, 'synset': list(key), 'missing': sorted({p[0] for p in exp_pairs} - {p[0] for p in got_pairs})[:4],
                          'spurious': sorted({p[0] for p in got_pairs} - {p[0] for p in exp_pairs})[:4]})
            if key in got_x:
                g_rel = sorted({tref(t) for t in got_x[key]['get_related']})
                e_rel = sorted({p[1] for p in exp_pairs})
                if g_rel != e_rel:
                    ctx.fail('get_related()=own-targets+targets-mapped-by-ILI-or-placeholders', sc,
                             {'args': args, 'synset': list(key), 'got': g_rel, 'expected': e_rel})
                e_hyp = sorted({p[1] for p in exp_pairs if p[0][0] in ('hypernym', 'instance_hypernym')})
                g_hyp = sorted({tref(t) for t in got_x[key]['hypernyms']})
                if g_hyp != e_hyp:
                    ctx.fail('hypernyms()-with-expansion', sc, {'args': args, 'synset': list(key), 'got': g_hyp, 'expected': e_hyp})
        if borrowed_any:
            ctx.dist['battery-with-borrowed-relations'] += 1
            ctx.case(('borrow', k, sc['ops']))


MATCHERS = {}


def process(ctx, scs):
    impls, models = multi.execute(ctx, scs)
    for sc, im, mo in zip(scs, impls, models):
        ctx.case(None, n=sum(1 for op in sc['ops'] if op['k'] == 'battery'))
        if not multi.correspond(ctx, sc, im, mo):
            continue
        judge(ctx, sc, im)
    return impls


def run(ctx):
    scs = [gen(ctx.rng) for _ in range(20 if ctx.tier == 'quick' else 300)]
    process(ctx, scs)
    sc = scs[-1]
    ctx.sample({'add_order': [[f"{l['id']}:{l['version']}" for l in op['res']['lexicons']] for op in sc['ops'] if op['k'] == 'add'],
                'requires_of_b': sc['ops'][[i for i, op in enumerate(sc['ops']) if op['k'] == 'add' and op['res']['lexicons'][0]['id'] == 'b'][0]]['res']['lexicons'][0].get('requires'),
                'expand_settings': [op.get('expand', '<default>') for op in sc['ops'] if op['k'] == 'battery']})


def widen(ctx):
    process(ctx, [gen(ctx.rng) for _ in range(120)])


def replay(ctx, scenario):
    process(ctx, [scenario])
