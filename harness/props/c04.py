"""C04 — queries stay inside the selected lexicons and ignore unrelated ones."""
import json

import docs
import leanside
import multi
import store
from props import c01

PID = 'C04'
RULE = ('one evaluation = one battery (every public query / navigation / relation method on every entity of a Wordnet built with given '
        'lexicon/lang/expand arguments) on a multi-lexicon database, judged for containment in the selection, and re-run after lexicons '
        'outside the selection and its expand set were added or removed; non-trivial = the database holds an extension or a second version '
        'of a selected lexicon id and the selection is a proper subset of the installed lexicons; distinct = distinct (database, arguments, outside change)')
ASSUMPTIONS = ['the frame clause is judged only when the selection S and the expand set E computed by the library are the same before and after the outside change']


def gen(rng):
    W = multi.world(rng, rng.choice(['1.1', '1.3']))
    v = '1.3'
    base_specs = ['a:1', 'e:1', 'b:1']
    ops = [multi.add_op(W, base_specs, v)]
    r0 = rng.random()
    if r0 < 0.25:
        # an extension is installed, the database is navigated in default mode, the extension is removed and an
        # unrelated lexicon sharing ILIs takes its rowid: later navigation must not remember the old family
        ops.append(multi.add_op(W, ['ax:1'], v))
        ops.append({'k': 'battery', 'warm': True})
        ops.append({'k': 'remove', 'spec': 'ax:1', '_removed': ['ax:1']})
        ops.append(multi.add_op(W, ['u:1'], v))
    elif r0 < 0.7:
        ops.append(multi.add_op(W, ['ax:1'], v))
    sels = rng.sample(multi.SELECTIONS, 6)
    if r0 < 0.25 and {} not in sels:
        sels[0] = {}
    for s in sels:
        ops.append(dict({'k': 'battery'}, **s))
    # outside change
    change = rng.choice(['add-u', 'add-a2', 'add-ax', 'remove-e', 'remove-ax', 'add-axx', 'add-ax-a2', 'add-ax-a2'])
    if change == 'add-u':
        ops.append(multi.add_op(W, ['u:1'], v))
    elif change == 'add-a2' and 'a:2' in W:
        ops.append(multi.add_op(W, ['a:2'], v))
    elif change == 'add-ax':
        ops.append(multi.add_op(W, ['ax:1'], v))
    elif change == 'add-ax-a2' and 'a:2' in W:
        # one file: the extension of a:1, then another version of a:1 with the same entity ids
        ops.append(multi.add_op(W, ['ax:1', 'a:2'], v))
    elif change == 'remove-e':
        ops.append({'k': 'remove', 'spec': 'e:1', '_removed': ['e:1']})
    elif change == 'remove-ax':
        ops.append({'k': 'remove', 'spec': 'ax:1', '_removed': ['ax:1']})
    else:
        g = docs.Gen(rng, hostile=0.05)
        ops.append({'k': 'add', 'res': docs.resource([g.extension('bx', W['b:1'], '1', v, with_forms=True)], v)})
    for s in sels:
        ops.append(dict({'k': 'battery'}, **s))
    # some histories continue in a new session on the same database file
    for op in ops:
        if op['k'] in ('remove', 'add') and op is not ops[0] and rng.random() < 0.35:
            op['_reconnect'] = True
    return {'ops': ops, 'change': change, 'nsel': len(sels)}


def refs_in(b):
    """every (kind, lexicon-spec) an observation mentions, with a description"""
    out = []
    sc = b['scope']
    for w in sc['words']:
        out.append((w['lexicon'], 'word ' + w['id']))
        for owner in w['senses']:
            out.append((owner, f'sense of word {w["id"]}'))
    for s in sc['senses']:
        out.append((s['lexicon'], 'sense ' + s['id']))
        if s['word'] != 'error':
            out.append((s['word'][0], f'word() of sense {s["id"]}'))
        if s['synset'] != 'error':
            out.append((s['synset'][0], f'synset() of sense {s["id"]}'))
        for r, t in s['relations']:
            out.append((t[0], f'relation target of sense {s["id"]}'))
        for n, t in s['synset_relations']:
            out.append((t[0], f'synset-relation target of sense {s["id"]}'))
    for y in sc['synsets']:
        out.append((y['lexicon'], 'synset ' + y['id']))
        for owner in y['members']:
            out.append((owner, f'member of synset {y["id"]}'))
        for r, t in y['relations']:
            out.append((t[0], f'relation target of synset {y["id"]}'))
    for x in sc.get('synsets_x', []):
        for t in x['get_related'] + x['closure_hypernym'] + [z for p in x['hypernym_paths'] for z in p]:
            out.append((t[0], f'related/closure/path of synset {x["ref"][1]}'))
    for x in sc.get('senses_x', []):
        for t, ms, hs in x.get('_nav', []):
            for m in ms:
                out.append((m[0], f'member of synset {t[1]} reached by a sense→synset relation of sense {x["ref"][1]}'))
            for h in hs:
                if h[0] != '':
                    out.append((h[0], f'hypernym of synset {t[1]} reached by a sense→synset relation of sense {x["ref"][1]}'))
        for t, y, ms in x.get('_rnav', []):
            if y[1] != 'error':
                out.append((y[0], f'synset() of sense {t[1]} reached by a relation of sense {x["ref"][1]}'))
            for m in ms:
                out.append((m[0], f'member of the synset of sense {t[1]} reached by a relation of sense {x["ref"][1]}'))
    for p_, v_ in sc.get('_tax', {}).items():
        if isinstance(v_, list):
            for what, lst in (('root', v_[0]), ('leaf', v_[1])):
                for r in lst:
                    out.append((r[0], f'{what} {r[1]} of the taxonomy of part of speech {p_!r}'))
    for f, ws, ss, ys in sc.get('_by_form', []):
        for kind, lst in (('word', ws), ('sense', ss), ('synset', ys)):
            for r in lst:
                out.append((r[0], f'{kind} {r[1]} returned for the form {f!r}'))
    return out


def family_refs(b, inst):
    """default mode: navigation and relation traversal from an entity stay inside its family"""
    bad = []
    sc = b['scope']
    for w in sc['words']:
        fam = multi.family(w['lexicon'], inst)
        for owner in w['senses']:
            if owner not in fam:
                bad.append(f'senses() of word {w["lexicon"]}/{w["id"]} from {owner}')
    for s in sc['senses']:
        fam = multi.family(s['lexicon'], inst)
        for what, ref in (('word()', s['word']), ('synset()', s['synset'])):
            if ref != 'error' and ref[0] not in fam:
                bad.append(f'{what} of sense {s["lexicon"]}/{s["id"]} from {ref[0]}')
        for r, t in s['relations']:
            if t[0] not in fam:
                bad.append(f'relation target of sense {s["lexicon"]}/{s["id"]} from {t[0]}')
    for y in sc['synsets']:
        fam = multi.family(y['lexicon'], inst)
        for owner in y['members']:
            if owner not in fam:
                bad.append(f'senses() of synset {y["lexicon"]}/{y["id"]} from {owner}')
        # own and borrowed relations are resolved inside the family ('' = placeholder synset without lexicon)
        for r, t in y['relations']:
            if t[0] != '' and t[0] not in fam:
                bad.append(f'relation target of synset {y["lexicon"]}/{y["id"]} from {t[0]}')
    return bad


def judge(ctx, sc, im):
    ops = sc['ops']
    n = sc['nsel']
    bat_idx = [k for k, op in enumerate(ops) if op['k'] == 'battery']
    paired = [k for k in bat_idx if not ops[k].get('warm')]
    first, second = paired[:n], paired[n:]
    change_idx = first[-1] + 1
    for k in bat_idx:
        b = im[k]
        if b == 'error':
            continue
        args = {a: v for a, v in ops[k].items() if a not in ('k', 'warm')}
        b = store.canon_battery(b)
        for x in b['scope'].get('synsets_x', []) if 'scope' in b else b.get('synsets_x', []):
            if x.get('_root_ili') not in (None, [], ['None']):
                ctx.fail('simulated-root-has-no-ili', sc, {'args': args, 'synset': x['ref'], 'root.ili': x['_root_ili']})
                break
        if im[k]['scope'].get('_ili_lookup_bad'):
            ctx.fail('Wordnet.ili(id)-finds-exactly-the-ILIs-of-the-selection(those-Wordnet.ilis()-lists)', sc,
                     {'args': args, 'bad': im[k]['scope']['_ili_lookup_bad']})
        inst = multi.installed_after(sc, im, k)
        default_mode = not args.get('lexicon') and not args.get('lang')
        if default_mode:
            bad = family_refs(b, inst)
            if bad:
                # F5: Sense.word()/synset() re-query by id over all lexicons
                f5 = [x for x in bad if x.startswith('word() of') or x.startswith('synset() of')]
                other = [x for x in bad if x not in f5]
                if f5:
                    ctx.fail('default-mode:sense.word()/synset()-resolved-in-another-lexicon-with-the-same-id', sc, {'args': args, 'bad': f5[:5]})
                if other:
                    ctx.fail('default-mode:navigation-stays-in-the-family', sc, {'args': args, 'bad': other[:5]})
        else:
            S = set(b['S'])
            # the selection itself, from the documents (documented specifier table, as in C08)
            from props import c08
            exp_S = {f'{i}:{v}' for i, v, _ in c08.expected([(lx['id'], lx['version'], lx['language']) for _, lx in inst],
                                                            args.get('lexicon'), args.get('lang'))}
            if S != exp_S:
                ctx.fail('selected-lexicons=those-matching-both-the-specifier-and-the-language', sc,
                         {'args': args, 'got': sorted(S), 'expected': sorted(exp_S), 'installed': [s for s, _ in inst]})
            bad = [(lx, what) for lx, what in refs_in(b) if lx not in S]
            if bad:
                ctx.fail('every-result-belongs-to-the-selected-lexicons', sc, {'args': args, 'S': sorted(S), 'bad': bad[:5]})
    # frame: same arguments, before / after the outside change
    changed = set()
    before = {s for s, _ in multi.installed_after(sc, im, change_idx)}
    after = {s for s, _ in multi.installed_after(sc, im, change_idx + 1)}
    changed = before ^ after
    if not isinstance(im[change_idx], dict) or not im[change_idx].get('ok'):
        return
    for k1, k2 in zip(first, second):
        b1, b2 = im[k1], im[k2]
        if b1 == 'error' or b2 == 'error':
            continue
        c1, c2 = store.canon_battery(b1), store.canon_battery(b2)
        if c1['S'] != c2['S'] or c1['E'] != c2['E']:
            continue
        if changed & (set(c1['S']) | set(c1['E'])):
            continue
        args = {a: v for a, v in ops[k1].items() if a != 'k'}
        default_mode = not args.get('lexicon') and not args.get('lang')
        if default_mode:
            continue
        ctx.dist['frame-judged'] += 1
        for c in (c1, c2):       # translate() towards the lexicon that was added / removed is not a result of S
            for x in c['scope'].get('synsets_x', []):
                for t in changed:
                    x['translate'].pop(t, None)
        n1 = [[x['ref'], x.get('_nav'), x.get('_rnav')] for x in c1['scope'].get('senses_x', [])] + [['taxonomy', c1['scope'].get('_tax')]]
        n2 = [[x['ref'], x.get('_nav'), x.get('_rnav')] for x in c2['scope'].get('senses_x', [])] + [['taxonomy', c2['scope'].get('_tax')]]
        dn = c01.diff(n1, n2)
        if dn:
            ctx.fail('frame:results-unchanged-by-lexicons-outside-selection-and-expand-set', sc,
                     {'args': args, 'change': sc['change'], 'path': 'senses_x.navigation' + dn[0], 'before': dn[1], 'after': dn[2]})
        d = c01.diff(c1, c2)
        if d:
            path = d[0]
            leak_forms = ('.forms' in path)
            if leak_forms:
                ctx.fail('frame:forms/tags/pronunciations-of-an-unselected-extension-leak-into-the-selection', sc,
                         {'args': args, 'change': sc['change'], 'path': path, 'before': d[1], 'after': d[2]})
            else:
                ctx.fail('frame:results-unchanged-by-lexicons-outside-selection-and-expand-set', sc,
                         {'args': args, 'change': sc['change'], 'path': path, 'before': d[1], 'after': d[2]})


def m_f12_f13(clause, scenario, detail):
    return clause == 'frame:forms/tags/pronunciations-of-an-unselected-extension-leak-into-the-selection' and \
        scenario.get('change') in ('add-ax', 'remove-ax', 'add-axx', 'add-ax-a2')       # every change that installs / removes the extension ax:1


def m_f5(clause, scenario, detail):
    if clause != 'default-mode:sense.word()/synset()-resolved-in-another-lexicon-with-the-same-id':
        return False
    # only with two lexicons sharing entity ids installed (a:1 and a:2)
    specs = {f"{lx['id']}:{lx['version']}" for op in scenario['ops'] if op['k'] == 'add' for lx in op['res']['lexicons']}
    return {'a:1', 'a:2'} <= specs


MATCHERS = {'f12_f13_unselected_extension_forms': m_f12_f13, 'f5_sense_word_by_id': m_f5}


def process(ctx, scs):
    impls, models = multi.execute(ctx, scs)
    for sc, im, mo in zip(scs, impls, models):
        ctx.dist['change=' + sc['change']] += 1
        specs = {f"{lx['id']}:{lx['version']}" for op in sc['ops'] if op['k'] == 'add' for lx in op['res']['lexicons']}
        nbat = sum(1 for op in sc['ops'] if op['k'] == 'battery')
        ctx.case(sc['ops'] if ('ax:1' in specs or 'a:2' in specs) else None, n=nbat)
        if not multi.correspond(ctx, sc, im, mo):
            continue
        judge(ctx, sc, im)
    return impls


def load_corpus():
    d = leanside.ROOT / 'corpus' / PID
    return [json.loads(f.read_text())['scenario'] for f in sorted(x for x in d.glob('*.json') if not x.name.startswith(('seeded-', 'regress-')))] if d.is_dir() else []


def run(ctx):
    n = 20 if ctx.tier == 'quick' else 300
    scs = load_corpus() + [gen(ctx.rng) for _ in range(n)]
    impls = process(ctx, scs)
    sc = scs[-1]
    ctx.sample({'installed': sorted({f"{lx['id']}:{lx['version']}" for op in sc['ops'] if op['k'] == 'add' for lx in op['res']['lexicons']}),
                'selections': [{a: v for a, v in op.items() if a != 'k'} for op in sc['ops'] if op['k'] == 'battery'][:sc['nsel']],
                'outside_change': sc['change']})


def widen(ctx):
    process(ctx, [gen(ctx.rng) for _ in range(120)])


def replay(ctx, scenario):
    process(ctx, [scenario])
