"""Document-level oracle of the word-form search procedure (docs/guides/lemmatization.rst,
Wordnet.words/senses/synsets): evaluated on the document only, never on the database."""
from unicodedata import normalize, combining


def norm(s):
    return ''.join(c for c in normalize('NFKD', s.lower()) if not combining(c))


def entry_forms(e, all_forms=True):
    fs = [e['lemma']['writtenForm']]
    if all_forms:
        fs += [f['writtenForm'] for f in e.get('forms', []) if not f.get('external')]
    return fs


def match_entries(entries, forms, pos, normalized, all_forms=True):
    """one pass: entries having a stored form in `forms`, or (normalizer active) whose
    stored normalized form is in `forms`; optional part-of-speech filter"""
    S = set(forms)
    out = []
    for e in entries:
        if e.get('external'):
            continue
        if pos and e['lemma']['partOfSpeech'] != pos:
            continue
        if any(f in S or (normalized and norm(f) in S) for f in entry_forms(e, all_forms)):
            out.append(e)
    return out


def find_entries(entries, form, pos, normalizer=True, lemmatize=None, all_forms=True):
    """the documented procedure; returns matching entries (order unspecified)"""
    props = lemmatize(form, pos) if lemmatize else {}
    if not props:
        props = {pos: {form}}
    res = []
    for p, fs in props.items():
        res += match_entries(entries, fs, p, normalizer, all_forms)
    if not res and normalizer:
        for p, fs in props.items():
            res += match_entries(entries, [norm(f) for f in fs], p, normalizer, all_forms)
    seen = set()
    out = []
    for e in res:
        k = (e.get('_lex'), e['id'])
        if k not in seen:
            seen.add(k)
            out.append(e)
    return out


def find_senses(entries, form, pos, normalizer=True, lemmatize=None, all_forms=True):
    """senses(form, pos): the two passes are judged on the *senses* found (a matching word
    without senses finds nothing, so the normalized pass still runs).  Returns (lexicon, sense id)."""
    props = lemmatize(form, pos) if lemmatize else {}
    if not props:
        props = {pos: {form}}

    def one_pass(transform):
        res = []
        for p, fs in props.items():
            for e in match_entries(entries, [transform(f) for f in fs], p, normalizer, all_forms):
                res += [(e['_lex'], s['id']) for s in e.get('senses', [])]
        return res
    res = one_pass(lambda f: f)
    if not res and normalizer:
        res = one_pass(norm)
    return set(res)


def find_synsets(entries, synset_pos, form, pos, normalizer=True, lemmatize=None, all_forms=True):
    """synsets(form, pos): the part-of-speech filter applies to the synset; `synset_pos` maps a
    (lexicon, synset id) pair to its part of speech.  Returns a set of (lexicon, synset id)."""
    props = lemmatize(form, pos) if lemmatize else {}
    if not props:
        props = {pos: {form}}

    def one_pass(transform):
        res = []
        for p, fs in props.items():
            for e in match_entries(entries, [transform(f) for f in fs], None, normalizer, all_forms):
                for s in e.get('senses', []):
                    key = (e['_lex'], s['synset'])
                    if not p or synset_pos.get(key) == p:
                        res.append(key)
        return res
    res = one_pass(lambda f: f)
    if not res and normalizer:
        res = one_pass(norm)
    return set(res)
