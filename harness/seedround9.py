import json, os, re, subprocess, sys, glob
sys.path.insert(0,'/verif/harness')
import seedtool
done=set(os.listdir('/verif/seeded'))
todo = sys.argv[1:] or [f'C{i:02d}' for i in range(1,21)]
for pid in todo:
    for k in ('1','2'):
        src=f'/tmp/mut9/{pid}-out/{k}'
        if not os.path.exists(src+'/patch.diff') or not os.path.exists(src+'/demo.py'):
            print(pid,k,'missing'); continue
        patch=open(src+'/patch.diff').read()
        m=re.search(r'^\+\+\+ b/wn/(\S+?)\.py',patch,re.M)
        f=(m.group(1) if m else 'x').replace('/','-').strip('_')
        h=re.search(r'^@@ .*@@.*?(?:def|class)\s+(\w+)',patch,re.M)
        fn=(h.group(1) if h else 'top').strip('_')
        name=f'{pid}-r9{"ab"[int(k)-1]}-{f}-{fn}'[:60]
        if name in done:
            print(name,'already adopted'); continue
        conf=seedtool.confirm(src,f'/tmp/mut9/{pid}')
        ok=conf.get('confirmed')
        print(name, 'confirmed' if ok else 'NOT CONFIRMED', {a:conf.get(a) for a in ('demo_clean_rc','demo_patched_rc','tests_rc','tests_tail')}, flush=True)
        if not ok: continue
        notes=open(src+'/notes.md').read() if os.path.exists(src+'/notes.md') else ''
        seedtool.adopt(src,name,pid,notes.strip().replace('\n',' ')[:400],{'demo_clean_rc':conf['demo_clean_rc'],'demo_patched_rc':conf['demo_patched_rc'],'tests':conf['tests_tail']})
        seedtool.run(name)
