"""Hypernym-graph scenarios: generators, XML packing, real-library observation,
and independent graph algorithms used by the oracles of C13/C14/C15."""
import itertools
import math
import random
from fractions import Fraction

from xml.sax.saxutils import quoteattr, escape

HDR = ('<?xml version="1.0" encoding="UTF-8"?>\n'
       '<!DOCTYPE LexicalResource SYSTEM "http://globalwordnet.github.io/schemas/WN-LMF-1.1.dtd">\n'
       '<LexicalResource xmlns:dc="https://globalwordnet.github.io/schemas/dc/">\n')


# ---------------------------------------------------------------------------
# graph specs
#   {'n': int, 'edges': [[s, t, 'hypernym'|'instance_hypernym'], ...] (declared order),
#    'pos': [...], 'words': {word: [nodes]}}

def mk(n, edges, pos=None, words=None):
    return {'n': n, 'edges': [list(e) for e in edges], 'pos': pos or ['n'] * n,
            'words': words or {}}


def hyp_lists(g):
    """get_related('hypernym','instance_hypernym') per node: declared order, de-duplicated"""
    out = [[] for _ in range(g['n'])]
    for s, t, _ in g['edges']:
        if t not in out[s]:
            out[s].append(t)
    return out


def hypo_lists(g):
    """declared hyponym / instance_hyponym relations (the generator declares the reverse
    of every edge on the target synset, after the target's own hypernym relations)"""
    out = [[] for _ in range(g['n'])]
    for s, t, _ in g['edges']:
        if s not in out[t]:
            out[t].append(s)
    return out


def exhaustive(n):
    """all labelled digraphs on n nodes, self-loops allowed: 2^(n*n) graphs"""
    pairs = [(s, t) for s in range(n) for t in range(n)]
    for bits in range(1 << len(pairs)):
        edges = [(s, t, 'hypernym') for k, (s, t) in enumerate(pairs) if bits >> k & 1]
        yield mk(n, edges)


def random_graph(rng, nmax=9):
    n = rng.randint(1, nmax)
    kind = rng.choice(['dag', 'dag', 'tree', 'diamondish', 'any', 'cyclic'])
    edges = []
    order = list(range(n))
    rng.shuffle(order)
    rank = {v: i for i, v in enumerate(order)}
    if kind == 'tree':
        for v in range(n):
            ups = [u for u in range(n) if rank[u] > rank[v]]
            if ups and rng.random() < 0.85:
                edges.append((v, rng.choice(ups)))
    elif kind in ('dag', 'diamondish'):
        p = 0.25 if kind == 'dag' else 0.45
        for v in range(n):
            for u in range(n):
                if rank[u] > rank[v] and rng.random() < p:
                    edges.append((v, u))
    else:
        p = rng.choice([0.1, 0.2, 0.35])
        for v in range(n):
            for u in range(n):
                if (u != v or rng.random() < 0.3) and rng.random() < p:
                    edges.append((v, u))
        if kind == 'cyclic' and n >= 2:
            k = rng.randint(2, min(n, 4))
            cyc = rng.sample(range(n), k)
            for i in range(k):
                edges.append((cyc[i], cyc[(i + 1) % k]))
    rng.shuffle(edges)
    typed = []
    for s, t in edges:
        typed.append((s, t, 'instance_hypernym' if rng.random() < 0.2 else 'hypernym'))
        if rng.random() < 0.08:   # parallel relation of the other type to the same target
            typed.append((s, t, 'hypernym' if typed[-1][2] != 'hypernym' else 'instance_hypernym'))
    r = rng.random()
    if r < 0.7:
        pos = ['n'] * n
    elif r < 0.85:
        pos = [rng.choice(['n', 'v']) for _ in range(n)]
    else:
        pos = [rng.choice(['a', 's', 'n', 'r']) for _ in range(n)]
    return mk(n, typed, pos)


def is_cyclic(g):
    adj = hyp_lists(g)
    color = [0] * g['n']

    def dfs(u):
        color[u] = 1
        for v in adj[u]:
            if color[v] == 1 or (color[v] == 0 and dfs(v)):
                return True
        color[u] = 2
        return False
    return any(color[u] == 0 and dfs(u) for u in range(g['n']))


def features(g):
    adj = hyp_lists(g)
    f = []
    if is_cyclic(g):
        f.append('cyclic')
    if any(u in adj[u] for u in range(g['n'])):
        f.append('self_loop')
    if any(len(a) >= 2 for a in adj):
        f.append('multi_parent')
    if sum(1 for a in adj if not a) >= 2:
        f.append('multi_root')
    if len(set(g['pos'])) > 1:
        f.append('mixed_pos')
    return f


# ---------------------------------------------------------------------------
# XML

def graph_lexicon_xml(lexid, g, with_words=True):
    if g.get('split'):
        return graph_base_xml(lexid, g)
    n = g['n']
    b = [f'<Lexicon id="{lexid}" label="{lexid}" language="en" email="a@b.c" license="l" version="1">\n']
    words = g.get('words') or {}
    if with_words and words:
        k = 0
        for w, nodes in words.items():
            # one entry per (word, pos) so that entry pos = synset pos
            bypos = {}
            for nd in nodes:
                bypos.setdefault(g['pos'][nd], []).append(nd)
            for p, nds in bypos.items():
                k += 1
                b.append(f'<LexicalEntry id="{lexid}-w{k}"><Lemma writtenForm={quoteattr(w)} partOfSpeech="{p}"/>')
                for nd in nds:
                    b.append(f'<Sense id="{lexid}-w{k}-s{nd}" synset="{lexid}-{nd}"/>')
                b.append('</LexicalEntry>\n')
    hypo = [[] for _ in range(n)]
    for s, t, ty in g['edges']:
        hypo[t].append((s, 'instance_hyponym' if ty == 'instance_hypernym' else 'hyponym'))
    for i in range(n):
        rels = ''.join(f'<SynsetRelation target="{lexid}-{t}" relType="{ty}"/>'
                       for s, t, ty in g['edges'] if s == i)
        rels += ''.join(f'<SynsetRelation target="{lexid}-{s}" relType="{ty}"/>' for s, ty in hypo[i])
        b.append(f'<Synset id="{lexid}-{i}" ili="" partOfSpeech="{g["pos"][i]}">{rels}</Synset>\n')
    b.append('</Lexicon>\n')
    return ''.join(b)


def _rel_lists(g):
    """per node: the relations written on it (hypernym edges from it, hyponym back-links to it)"""
    n = g['n']
    rels = [[] for _ in range(n)]
    for s_, t_, ty in g['edges']:
        rels[s_].append((t_, ty))
    for s_, t_, ty in g['edges']:
        rels[t_].append((s_, 'instance_hyponym' if ty == 'instance_hypernym' else 'hyponym'))
    return rels


def graph_base_xml(lexid, g):
    """nodes below g['split'] with the relations among them: the base lexicon of a taxonomy that continues in an extension"""
    k = g['split']
    rels = _rel_lists(g)
    b = [f'<Lexicon id="{lexid}" label="{lexid}" language="en" email="a@b.c" license="l" version="1">\n']
    kk = 0
    for w, nodes in (g.get('words') or {}).items():
        bypos = {}
        for nd in nodes:
            if nd < k:
                bypos.setdefault(g['pos'][nd], []).append(nd)
        for p, nds in bypos.items():
            kk += 1
            b.append(f'<LexicalEntry id="{lexid}-w{kk}"><Lemma writtenForm={quoteattr(w)} partOfSpeech="{p}"/>')
            for nd in nds:
                b.append(f'<Sense id="{lexid}-w{kk}-s{nd}" synset="{lexid}-{nd}"/>')
            b.append('</LexicalEntry>\n')
    for i in range(k):
        r = ''.join(f'<SynsetRelation target="{lexid}-{t}" relType="{ty}"/>' for t, ty in rels[i] if t < k)
        b.append(f'<Synset id="{lexid}-{i}" ili="" partOfSpeech="{g["pos"][i]}">{r}</Synset>\n')
    b.append('</Lexicon>\n')
    return ''.join(b)


def graph_extension_xml(lexid, g):
    """nodes from g['split'] on as new synsets of an extension; every relation that touches one of them is the
    extension's (on a new synset, or on the base synset named as ExternalSynset)"""
    k, n = g['split'], g['n']
    rels = _rel_lists(g)
    b = [f'<LexiconExtension id="{lexid}x" label="{lexid}x" language="en" email="a@b.c" license="l" version="1">\n',
         f'<Extends id="{lexid}" version="1"/>\n']
    for i in range(k):
        r = ''.join(f'<SynsetRelation target="{lexid}-{t}" relType="{ty}"/>' for t, ty in rels[i] if t >= k)
        touched = r or any(t == i for j in range(k, n) for t, _ in rels[j])
        if touched:
            b.append(f'<ExternalSynset id="{lexid}-{i}">{r}</ExternalSynset>\n')
    for i in range(k, n):
        r = ''.join(f'<SynsetRelation target="{lexid}-{t}" relType="{ty}"/>' for t, ty in rels[i])
        b.append(f'<Synset id="{lexid}-{i}" ili="" partOfSpeech="{g["pos"][i]}">{r}</Synset>\n')
    b.append('</LexiconExtension>\n')
    return ''.join(b)


def pack_extensions(graphs, prefix='g'):
    body = ''.join(graph_extension_xml(f'{prefix}{k}', g) for k, g in enumerate(graphs) if g.get('split'))
    return (HDR + body + '</LexicalResource>\n') if body else None


def pack(graphs, prefix='g'):
    return HDR + ''.join(graph_lexicon_xml(f'{prefix}{k}', g) for k, g in enumerate(graphs)) + '</LexicalResource>\n'


# ---------------------------------------------------------------------------
# observation of the real library (mirrors the driver's `graph` answer)

def _idx(lexid, ss):
    if ss.id == '*ROOT*':
        return -1
    assert ss.id.startswith(lexid + '-'), ss.id
    return int(ss.id[len(lexid) + 1:])


def _frac(x):
    """exact rational of a float as [num, den] is not what we compare; see cmp_float"""
    return x


def observe_graph(wn, lexid, g, lchD):
    import wn.taxonomy as tax
    import wn.similarity as sim
    w = wn.Wordnet(lexicon=f'{lexid}:1' + (f' {lexid}x:1' if g.get('split') else ''))
    n = g['n']
    ss = [w.synset(f'{lexid}-{i}') for i in range(n)]
    ix = lambda s: _idx(lexid, s)
    out = {}
    for key, root in (('noroot', False), ('root', True)):
        d = {}
        d['paths'] = [[[ix(s) for s in p] for p in tax.hypernym_paths(x, simulate_root=root)] for x in ss]
        d['min'] = [tax.min_depth(x, simulate_root=root) for x in ss]
        d['max'] = [tax.max_depth(x, simulate_root=root) for x in ss]
        pairs = []
        for a in ss:
            for b in ss:
                e = {}
                e['common'] = [ix(s) for s in tax.common_hypernyms(a, b, simulate_root=root)]
                e['lowest'] = [ix(s) for s in tax.lowest_common_hypernyms(a, b, simulate_root=root)]
                try:
                    e['sp'] = [ix(s) for s in tax.shortest_path(a, b, simulate_root=root)]
                except wn.Error:
                    e['sp'] = 'error'
                for nm, fn in (('path', lambda: sim.path(a, b, simulate_root=root)),
                               ('wup', lambda: sim.wup(a, b, simulate_root=root)),
                               ('lch', lambda: sim.lch(a, b, lchD, simulate_root=root))):
                    try:
                        e[nm] = fn()
                    except wn.Error:
                        e[nm] = 'error'
                pairs.append(e)
        d['pairs'] = pairs
        # the Synset methods are shortcuts for the wn.taxonomy functions: same answers
        bad = []
        for i_, x in enumerate(ss):
            for nm, got, ref in (('min_depth', x.min_depth(simulate_root=root), d['min'][i_]),
                                 ('max_depth', x.max_depth(simulate_root=root), d['max'][i_]),
                                 ('hypernym_paths', [[ix(s) for s in p] for p in x.hypernym_paths(simulate_root=root)], d['paths'][i_])):
                if got != ref:
                    bad.append([nm, i_, got, ref])
        for a_ in range(n):
            for b_ in range(n):
                e = pairs[a_ * n + b_]
                try:
                    sp = [ix(s) for s in ss[a_].shortest_path(ss[b_], simulate_root=root)]
                except wn.Error:
                    sp = 'error'
                for nm, got, ref in (('common_hypernyms', [ix(s) for s in ss[a_].common_hypernyms(ss[b_], simulate_root=root)], e['common']),
                                     ('lowest_common_hypernyms', [ix(s) for s in ss[a_].lowest_common_hypernyms(ss[b_], simulate_root=root)], e['lowest']),
                                     ('shortest_path', sp, e['sp'])):
                    if got != ref:
                        bad.append([nm, [a_, b_], got, ref])
        d['shortcuts_bad'] = bad[:5]
        out[key] = d
    out['closure'] = [[ix(s) for s in x.closure('hypernym', 'instance_hypernym')] for x in ss]
    poss = []
    for p in g['pos']:
        if p not in poss:
            poss.append(p)
    out['roots'] = {p: [ix(s) for s in tax.roots(w, pos=p)] for p in poss}
    out['leaves'] = {p: [ix(s) for s in tax.leaves(w, pos=p)] for p in poss}
    out['depth'] = {p: tax.taxonomy_depth(w, p) for p in poss}
    return out


def float_matches(f, q, neglog=False):
    """Does the library's float equal the model's rational [num, den]?  int/int true
    division is correctly rounded, so the float is a function of the rational alone."""
    if f == 'error' or q == 'error':
        return f == q
    num, den = q
    if neglog:
        return f == -math.log(num / den)
    if num == 0:
        return f == 0
    return f == num / den


# ---------------------------------------------------------------------------
# independent graph algorithms (oracles)

def max_chains(adj, x):
    """all maximal simple chains from x (x excluded); [] when x has no successor but itself"""
    res = []

    def go(u, vis, path):
        nxt = [v for v in adj[u] if v not in vis]
        if not nxt:
            res.append(list(path))
            return
        for v in nxt:
            go(v, vis | {v}, path + [v])
    first = [v for v in adj[x] if v != x]
    for v in first:
        go(v, {x, v}, [v])
    return res


def ancestors_star(adj, x):
    seen = {x}
    q = [x]
    while q:
        u = q.pop()
        for v in adj[u]:
            if v not in seen:
                seen.add(v)
                q.append(v)
    return seen


def bfs_dist(adj, x):
    d = {x: 0}
    q = [x]
    while q:
        nq = []
        for u in q:
            for v in adj[u]:
                if v not in d:
                    d[v] = d[u] + 1
                    nq.append(v)
        q = nq
    return d


# ---------------------------------------------------------------------------
# batch execution: real library (process pool) and Lean model (driver)

def _impl_chunk(args):
    chunk, lchDs = args
    import wnenv
    wn = wnenv.wn
    wnenv.fresh_db()
    d = wnenv.workdir()
    try:
        f = d / 'graphs.xml'
        f.write_text(pack(chunk), encoding='utf-8')
        wn.add(f, progress_handler=None)
        xt = pack_extensions(chunk)
        if xt:
            fx = d / 'graph-extensions.xml'
            fx.write_text(xt, encoding='utf-8')
            wn.add(fx, progress_handler=None)
        res = []
        for k, g in enumerate(chunk):
            try:
                res.append(observe_graph(wn, f'g{k}', g, lchDs[k]))
            except Exception as e:   # an unexpected exception is an observation too
                res.append({'exception': repr(e)})
        return res
    finally:
        import shutil
        shutil.rmtree(d, ignore_errors=True)
        wnenv.cleanup()


def model_request(g, lchD):
    return {'op': 'graph', 'n': g['n'], 'hyp': hyp_lists(g), 'hypo': hypo_lists(g),
            'pos': g['pos'], 'lchD': lchD}


def run_impl(graphs, lchDs, per_db=30, procs=None):
    import multiprocessing as mp
    chunks = [(graphs[i:i + per_db], lchDs[i:i + per_db]) for i in range(0, len(graphs), per_db)]
    if not chunks:
        return []
    procs = procs or min(14, len(chunks))
    if procs <= 1:
        outs = [_impl_chunk(c) for c in chunks]
    else:
        with mp.get_context('fork').Pool(procs) as pool:
            outs = pool.map(_impl_chunk, chunks, chunksize=1)
    return [o for out in outs for o in out]


# ---------------------------------------------------------------------------
# information-content scenarios (C14 res/jcn/lin, C15)

IC_POS = ('n', 'v', 'a', 'r')


def fold(p):
    return 'a' if p == 's' else p


def random_ic_scenario(rng, nmax=8, allow_sat=True):
    g = random_graph(rng, nmax)
    n = g['n']
    cls = rng.choice(['n', 'n', 'v', 'as', 'r'] if allow_sat else ['n', 'n', 'v', 'a', 'r'])
    g['pos'] = [rng.choice(['a', 's']) if cls == 'as' else cls for _ in range(n)]
    vocab = {}
    for i in range(n):
        if rng.random() < 0.9:
            vocab.setdefault(f'w{i}', []).append(i)
    for k in range(rng.randint(0, 3)):       # ambiguous words (several synsets)
        nodes = sorted(set(rng.sample(range(n), rng.randint(1, min(n, 3)))))
        vocab[f'amb{k}'] = nodes
    if rng.random() < 0.4:                   # a multi-word form
        vocab['two words'] = [rng.randrange(n)]
    extra = []
    if rng.random() < 0.5:                   # forms that differ only in case, in different synsets
        for w in rng.sample(sorted(vocab), min(len(vocab), rng.randint(1, 2))):
            v = w.capitalize() if rng.random() < 0.6 else w.upper()
            if v != w and v not in vocab:
                vocab[v] = sorted(set(rng.sample(range(n), rng.randint(1, min(n, 2)))))
    if vocab and rng.random() < 0.5:         # tokens whose case matches no stored form (found by the normalized pass)
        extra = [w.upper() if w.upper() not in vocab else w.title() for w in rng.sample(sorted(vocab), 1)]
        extra = [x for x in extra if x not in vocab]
    g['words'] = vocab
    toks = list(vocab) + extra + ['unknown1', 'unknown2', 'Unknown1', '', ' ']
    corpus = [rng.choice(toks) for _ in range(rng.randint(0, 12))]
    smoothing = rng.choice([(1, 1), (1, 1), (1, 2), (2, 1), (0, 1), (1, 4)])
    mode = rng.choice(['corpus', 'corpus', 'arbitrary'])
    sc = {'graph': g, 'corpus': corpus, 'distribute': rng.random() < 0.5,
          'smoothing': list(smoothing), 'mode': mode}
    if mode == 'arbitrary':
        sc['weights'] = [[rng.randint(1, 12), rng.choice([1, 2, 4, 3])] for _ in range(n)]
        sc['total'] = [rng.randint(1, 40), rng.choice([1, 2])]
    return sc


def ic_lookup(g, t):
    """synsets of a corpus token, by the documented two-pass search of Wordnet.synsets() with the
    default normalizer (lemmatization.rst): stored form == token or normalized stored form == token;
    only when that finds nothing, the same with the normalized token"""
    import lookup
    words = g['words']

    def one(q):
        out = []
        for w, nodes in words.items():
            if w == q or lookup.norm(w) == q:
                out += [nd for nd in nodes if nd not in out]
        return out
    return one(t) or one(lookup.norm(t))


def ic_model_request(sc):
    g = sc['graph']
    req = {'op': 'ic', 'n': g['n'], 'hyp': hyp_lists(g), 'pos': g['pos']}
    if sc['mode'] == 'arbitrary':
        req['weights'] = sc['weights']
        req['totals'] = {p: sc['total'] for p in IC_POS}
    else:
        counts = {}
        for t in sc['corpus']:
            counts[t] = counts.get(t, 0) + 1
        req['words'] = [[c, ic_lookup(g, t)] for t, c in counts.items()]
        req['distribute'] = sc['distribute']
        req['smoothing'] = sc['smoothing']
    return req


def observe_ic(wn, lexid, sc):
    import wn.ic
    import wn.similarity as sim
    g = sc['graph']
    n = g['n']
    w = wn.Wordnet(lexicon=f'{lexid}:1')
    ss = [w.synset(f'{lexid}-{i}') for i in range(n)]
    if sc['mode'] == 'arbitrary':
        freq = {p: {None: sc['total'][0] / sc['total'][1]} for p in IC_POS}
        for i in range(n):
            p = fold(g['pos'][i])
            if p in freq:
                freq[p][ss[i].id] = sc['weights'][i][0] / sc['weights'][i][1]
    else:
        # the corpus is documented as any iterable of words: supply it as a list, a tuple or a one-shot generator
        how = len(sc['corpus']) % 3
        corpus = list(sc['corpus']) if how == 0 else tuple(sc['corpus']) if how == 1 else (t for t in sc['corpus'])
        freq = wn.ic.compute(corpus, w, distribute_weight=sc['distribute'],
                             smoothing=sc['smoothing'][0] / sc['smoothing'][1])
    out = {'node': [freq.get(fold(g['pos'][i]), {}).get(ss[i].id) for i in range(n)],
           'total': {p: freq[p][None] for p in IC_POS},
           'keys': {p: sorted(k for k in freq[p] if k is not None) for p in IC_POS}}
    pairs = []
    for a in ss:
        for b in ss:
            e = {}
            for nm, fn in (('res', sim.res), ('jcn', sim.jcn), ('lin', sim.lin)):
                try:
                    e[nm] = fn(a, b, freq)
                except wn.Error:
                    e[nm] = 'error'
                except (ZeroDivisionError, ValueError, KeyError) as ex:
                    e[nm] = 'exc:' + type(ex).__name__
            pairs.append(e)
    out['pairs'] = pairs
    # probabilities / information content through the public functions
    probs = []
    for x in ss:
        try:
            probs.append(wn.ic.synset_probability(x, freq))
        except (KeyError, ZeroDivisionError) as ex:
            probs.append('exc:' + type(ex).__name__)
    out['prob'] = probs
    return out


def _impl_ic_chunk(chunk):
    import wnenv
    wn = wnenv.wn
    wnenv.fresh_db()
    d = wnenv.workdir()
    try:
        f = d / 'graphs.xml'
        full = [sc.get('xgraph') or sc['graph'] for sc in chunk]
        f.write_text(pack(full), encoding='utf-8')
        wn.add(f, progress_handler=None)
        xt = pack_extensions(full)
        if xt:
            # extensions that are installed but not selected: the Wordnet handed to compute() is the base alone
            fx = d / 'graph-extensions.xml'
            fx.write_text(xt, encoding='utf-8')
            wn.add(fx, progress_handler=None)
        res = []
        for k, sc in enumerate(chunk):
            try:
                res.append(observe_ic(wn, f'g{k}', sc))
            except Exception as e:
                import traceback
                res.append({'exception': repr(e), 'tb': traceback.format_exc()[-800:]})
        return res
    finally:
        import shutil
        shutil.rmtree(d, ignore_errors=True)
        wnenv.cleanup()


def run_impl_ic(scs, per_db=25, procs=None):
    import multiprocessing as mp
    chunks = [scs[i:i + per_db] for i in range(0, len(scs), per_db)]
    if not chunks:
        return []
    procs = procs or min(14, len(chunks))
    if procs <= 1:
        outs = [_impl_ic_chunk(c) for c in chunks]
    else:
        with mp.get_context('fork').Pool(procs) as pool:
            outs = pool.map(_impl_ic_chunk, chunks, chunksize=1)
    return [o for out in outs for o in out]


def close(a, b, rel=1e-9):
    if isinstance(a, str) or isinstance(b, str) or a is None or b is None:
        return a == b
    if math.isinf(a) or math.isinf(b):
        return a == b
    return abs(a - b) <= rel * max(1.0, abs(a), abs(b))
