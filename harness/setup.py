"""MANIFEST.setup_cmd: regenerate Gen/*.lean from /repo and build the Lean project offline."""
import pathlib
import sys
HERE = pathlib.Path(__file__).resolve().parent
sys.path.insert(0, str(HERE))
import leanside  # noqa: E402

rep = leanside.build_all()
print(rep['build_out'][-3000:])
print('translate:', rep['translate'])
print('build rc:', rep['build_rc'], 'in', rep['build_s'], 's')
sys.exit(0 if rep['build_rc'] == 0 and rep['translate']['ok'] else 1)
