#!/bin/bash
# maintenance: run the thorough tier of every check once (in $WN_REPO if set) and list the runs that did not exit 0
cd "$(dirname "$0")/.."
/venv/bin/python harness/setup.py > /dev/null 2>&1
for i in $(seq -w 1 20); do
  out=$(./check C$i --tier thorough 2>&1 | grep "^\[C\|^VIOLATION\|infrastructure")
  echo "$out" | tail -1
  if ! echo "$out" | grep -q "exit=0"; then echo "NOT-CLEAN C$i $out"; fi
done
echo "all done"
