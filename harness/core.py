"""Shared machinery of every check: context, verdict, evidence, known findings.

A check module (harness/props/cXX.py) exposes

    PID          = 'C13'
    def run(ctx): ...                 # generate scenarios, run impl + model + oracle
    def replay(ctx, scenario): ...    # re-run the oracle on one stored scenario

and reports through the `Ctx` object:

    ctx.case(nontrivial_key=...)            one evaluated scenario
    ctx.disagree(scenario, impl, model)     model and implementation differ
    ctx.fail(clause, scenario, detail)      the property's oracle fails on the real code
    ctx.dist[...] += 1                      input distribution counters
    ctx.sample(obj)                         a scenario to show in the evidence
"""
import collections
import hashlib
import json
import os
import pathlib
import random
import sys
import time

ROOT = pathlib.Path(__file__).resolve().parent.parent
EVIDENCE = ROOT / 'evidence'
REPLAYS = ROOT / 'replays'
CORPUS = ROOT / 'corpus'
KNOWN = ROOT / 'known_findings.json'

TRUSTED_BASE = [
    'Lean 4.33.0 kernel',
    'axioms allowed: propext, Classical.choice, Quot.sound (audited with #print axioms on every run)',
    'harness/translate.py (prints literals of /repo into lean/WnVerif/Gen)',
    'correspondence harness (harness/*.py) and Lean driver (lean/Driver.lean, lean/WnVerif/Drv)',
    'SQLite, CPython stdlib (sqlite3, expat, ElementTree, gzip/lzma/tarfile, unicodedata, math.log, float arithmetic): modelled, validated by correspondence only',
]


def canon(obj):
    return json.dumps(obj, sort_keys=True, ensure_ascii=False, default=str)


def short_hash(obj):
    return hashlib.sha1(canon(obj).encode('utf-8')).hexdigest()[:12]


class Failure:
    def __init__(self, clause, scenario, detail, kind='oracle'):
        self.clause = clause
        self.scenario = scenario
        self.detail = detail
        self.kind = kind            # 'oracle' | 'unproved' | 'correspondence' | 'audit'
        self.finding = None         # finding_id when matched

    def to_json(self):
        return {'clause': self.clause, 'kind': self.kind, 'detail': self.detail,
                'scenario': self.scenario}


class Ctx:
    def __init__(self, pid, tier, seed):
        self.pid = pid
        self.tier = tier
        self.seed = seed
        self.rng = random.Random(f'{pid}:{seed}')
        self.t0 = time.time()
        self.evaluations = 0
        self.nontrivial = set()
        self.dist = collections.Counter()
        self.samples = []
        self.failures = []          # oracle failures on the real code
        self.disagreements = []     # model vs implementation
        self.notes = []
        self.lean = None            # filled by run.py: build / audit / obligations report
        self.rule = ''
        self.assumptions = []
        self.extra = {}
        self.traces = 0
        self.exhaustive = False
        self.budget_s = {'quick': 150, 'thorough': 1200}[tier]
        self.widened = False

    # -- reporting -----------------------------------------------------
    def time_left(self):
        return self.budget_s - (time.time() - self.t0)

    def case(self, nontrivial_key=None, n=1):
        self.evaluations += n
        if nontrivial_key is not None:
            self.nontrivial.add(nontrivial_key if isinstance(nontrivial_key, str)
                                else short_hash(nontrivial_key))

    def sample(self, obj, limit=3):
        if len(self.samples) < limit:
            self.samples.append(obj)

    def fail(self, clause, scenario, detail):
        _raise_if_harness_fault(detail)
        self.failures.append(Failure(clause, scenario, detail, 'oracle'))

    def disagree(self, scenario, impl, model, what=''):
        _raise_if_harness_fault(impl)
        self.disagreements.append(Failure(
            'correspondence' + (':' + what if what else ''), scenario,
            {'impl': impl, 'model': model}, 'correspondence'))

    def note(self, msg):
        self.notes.append(msg)
        print(f'[{self.pid}] {msg}', flush=True)


class HarnessFault(Exception):
    """an exception raised by the checking machinery itself (not by the library under test)"""


def _tracebacks(x, depth=0):
    if depth > 6:
        return
    if isinstance(x, dict):
        for k, v in x.items():
            if k == 'tb' and isinstance(v, str):
                yield v
            else:
                yield from _tracebacks(v, depth + 1)
    elif isinstance(x, (list, tuple)):
        for v in x[:50]:
            yield from _tracebacks(v, depth + 1)


def _raise_if_harness_fault(detail):
    """A traceback whose innermost frame is in /verif/harness and whose message says that a module
    attribute of the library is missing means a private helper the harness leans on (wn._db.connect,
    wn._add.BATCH_SIZE) was renamed: an infrastructure error (exit 2), not a violation.  Any other
    exception surfacing in harness frames (the library returned something unusable) stays a failure."""
    import re
    for tb in _tracebacks(detail):
        frames = re.findall(r'File "([^"]+)", line \d+', tb)
        last = tb.strip().splitlines()[-1] if tb.strip() else ''
        private_api_gone = re.search(r"(AttributeError: module 'wn[^']*' has no attribute|ImportError: cannot import name|"
                                     r"ModuleNotFoundError: No module named 'wn)", last)
        if frames and '/harness/' in frames[-1] and '/wn/' not in frames[-1] and private_api_gone:
            raise HarnessFault('the harness leans on a helper of the library that is gone:\n' + tb[-800:])


# ---------------------------------------------------------------------------
# known findings

def load_known(pid):
    if not KNOWN.exists():
        return []
    data = json.loads(KNOWN.read_text())
    return [f for f in data.get('findings', []) if f.get('property') == pid]


def match_finding(failure, findings, matchers):
    """A failure is attributed to an *open* finding only when the finding's
    matcher (a predicate in the property module) accepts clause+scenario+detail."""
    for f in findings:
        if f.get('status') != 'open':
            continue
        fn = matchers.get(f.get('matcher'))
        if fn is None:
            continue
        try:
            if fn(failure.clause, failure.scenario, failure.detail):
                return f
        except Exception:
            continue
    return None


# ---------------------------------------------------------------------------
# verdict

def write_replay(pid, payload):
    REPLAYS.mkdir(exist_ok=True)
    name = f'{pid}-{short_hash(payload)}.json'
    path = REPLAYS / name
    path.write_text(json.dumps(payload, indent=1, ensure_ascii=False, default=str))
    return f'replays/{name}'


def finish(ctx, module):
    """Decide the verdict, print the protocol lines, write evidence, return exit code."""
    findings = load_known(ctx.pid)
    matchers = getattr(module, 'MATCHERS', {})
    lean = ctx.lean or {}

    new_failures = []
    known_hits = collections.OrderedDict()
    for f in ctx.failures:
        k = match_finding(f, findings, matchers)
        if k is not None:
            f.finding = k['finding_id']
            known_hits.setdefault(k['finding_id'], (k, f))
        else:
            new_failures.append(f)

    lines = []
    exit_code = 0
    violations = 0

    for fid, (k, f) in known_hits.items():
        lines.append(f"KNOWN-FINDING: property={ctx.pid} {fid}: {k.get('what', '')}")

    broken = []   # things that no longer check (not by themselves violations)
    for name, status in (lean.get('theorems') or {}).items():
        if status != 'proved':
            broken.append({'kind': 'unproved', 'theorem': name, 'status': status})
    for a in lean.get('audit_problems') or []:
        broken.append({'kind': 'audit', 'problem': a})
    if lean.get('build_error'):
        broken.append({'kind': 'build', 'message': lean['build_error'][:4000]})
    # a disagreement explained by an open finding's model-side counterpart is
    # not possible here: the model mirrors the tree, findings included
    for d in ctx.disagreements[:20]:
        broken.append({'kind': 'correspondence', 'clause': d.clause,
                       'scenario': d.scenario, 'detail': d.detail})

    if new_failures:
        # concrete failing input on the real code
        seen = set()
        for f in new_failures:
            key = f.clause
            if key in seen:
                continue
            seen.add(key)
            payload = {'property': ctx.pid, 'kind': 'failing-input', 'clause': f.clause,
                       'scenario': f.scenario, 'detail': f.detail,
                       'what_broke': broken[:5],
                       'replay_cmd': f'./check {ctx.pid} --replay <this file>',
                       'seed': ctx.seed, 'tier': ctx.tier}
            path = write_replay(ctx.pid, payload)
            lines.append(f'VIOLATION property={ctx.pid} replay={path}')
            violations += 1
            if len(seen) >= 5:
                break
        exit_code = 1
    elif broken:
        payload = {'property': ctx.pid, 'kind': 'unproved',
                   'no_longer_checks': broken,
                   'search': {'evaluations': ctx.evaluations, 'widened': ctx.widened,
                              'oracle_failures': 0},
                   'seed': ctx.seed, 'tier': ctx.tier,
                   'replay_cmd': f'./check {ctx.pid} --replay <this file>'}
        path = write_replay(ctx.pid, payload)
        lines.append(f'VIOLATION property={ctx.pid} replay={path} no-failing-input-found')
        violations += 1
        exit_code = 1

    theorems = lean.get('theorems') or {}
    obligations = len(theorems)
    discharged = sum(1 for s in theorems.values() if s == 'proved')
    cov = {
        'obligations': obligations,
        'discharged': discharged,
        'checker_cmd': lean.get('checker_cmd', 'cd lean && lake build'),
        'trusted_base': TRUSTED_BASE + list(getattr(module, 'TRUSTED_EXTRA', [])),
        'theorems': theorems,
        'axioms': lean.get('axioms', {}),
        'gen_files': lean.get('gen_files', {}),
        'evaluations': ctx.evaluations,
        'distinct_nontrivial': len(ctx.nontrivial),
        'rule': ctx.rule or getattr(module, 'RULE', ''),
        'traces_validated_against_impl': ctx.traces or ctx.evaluations,
        'disagreements_checked': len(ctx.disagreements),
        'oracle_failures': len(ctx.failures),
        'known_findings_replayed': sorted(known_hits),
        'input_distribution': dict(sorted(ctx.dist.items())),
        'samples': ctx.samples or [{'note': 'no scenario generated'}],
        'exhaustive': bool(ctx.exhaustive),
        'notes': ctx.notes[-20:],
    }
    cov.update(ctx.extra)
    ev = {
        'property_id': ctx.pid,
        'tier': ctx.tier,
        'seed': ctx.seed,
        'level': 'proof',
        'coverage': cov,
        'assumptions': list(getattr(module, 'ASSUMPTIONS', [])) + ctx.assumptions,
        'wall_s': round(time.time() - ctx.t0, 2),
        'violations': violations,
    }
    EVIDENCE.mkdir(exist_ok=True)
    (EVIDENCE / f'{ctx.pid}.json').write_text(
        json.dumps(ev, indent=1, ensure_ascii=False, default=str))

    for ln in lines:
        print(ln, flush=True)
    print(f'[{ctx.pid}] tier={ctx.tier} seed={ctx.seed} theorems={discharged}/{obligations} '
          f'evaluations={ctx.evaluations} nontrivial={len(ctx.nontrivial)} '
          f'disagreements={len(ctx.disagreements)} oracle_failures={len(ctx.failures)} '
          f'known={len(known_hits)} wall={ev["wall_s"]}s exit={exit_code}', flush=True)
    return exit_code
