"""Maintenance tool for seeded changes (not part of any registered check).

  seedtool.py confirm <src-dir> <worktree>       confirm a sub-agent's change in a scratch worktree:
                                                 demo passes clean, fails patched, test suite passes patched
  seedtool.py adopt <src-dir> <name> <pid> ...   copy patch/demo into /verif/seeded/<name>/ with meta.json
  seedtool.py run <name> [pid ...]               apply /verif/seeded/<name>/patch.diff to /repo, run the quick
                                                 checks of the given properties (default: the one in meta.json),
                                                 undo the patch, record what each check reported
"""
import json
import os
import pathlib
import shutil
import subprocess
import sys
import time

ROOT = pathlib.Path(__file__).resolve().parent.parent
SEEDED = ROOT / 'seeded'
PY = '/venv/bin/python'


def sh(cmd, cwd=None, env=None, timeout=3600):
    e = dict(os.environ)
    if env:
        e.update(env)
    p = subprocess.run(cmd, cwd=cwd, env=e, stdout=subprocess.PIPE, stderr=subprocess.STDOUT,
                       text=True, timeout=timeout, shell=isinstance(cmd, str))
    return p.returncode, p.stdout


def confirm(src, wt):
    src = pathlib.Path(src)
    wt = pathlib.Path(wt)
    res = {}
    sh(['git', '-C', str(wt), 'checkout', '--', '.'])
    env = {'PYTHONPATH': str(wt)}
    rc, out = sh([PY, str(src / 'demo.py')], cwd=str(wt), env=env)
    res['demo_clean_rc'] = rc
    rc, out = sh(['git', '-C', str(wt), 'apply', str(src / 'patch.diff')])
    res['apply_rc'] = rc
    if rc != 0:
        res['apply_out'] = out[-500:]
        return res
    try:
        rc, out = sh([PY, str(src / 'demo.py')], cwd=str(wt), env=env)
        res['demo_patched_rc'] = rc
        res['demo_patched_out'] = out[-600:]
        rc, out = sh([PY, '-m', 'pytest', '-q', '-p', 'no:cacheprovider', '--timeout=900', '-x'],
                     cwd=str(wt), env=env)
        res['tests_rc'] = rc
        res['tests_tail'] = out.strip().splitlines()[-1] if out.strip() else ''
    finally:
        sh(['git', '-C', str(wt), 'checkout', '--', '.'])
    res['confirmed'] = (res['demo_clean_rc'] == 0 and res.get('demo_patched_rc') not in (0, None)
                        and res.get('tests_rc') == 0)
    return res


def adopt(src, name, pid, needs, confirmation):
    d = SEEDED / name
    d.mkdir(parents=True, exist_ok=True)
    src = pathlib.Path(src)
    shutil.copy(src / 'patch.diff', d / 'patch.diff')
    shutil.copy(src / 'demo.py', d / 'demo.py')
    if (src / 'notes.md').exists():
        shutil.copy(src / 'notes.md', d / 'notes.md')
    meta = {'breaks_property': pid, 'needs_to_manifest': needs,
            'origin': 'independent sub-agent given only the property text and a scratch worktree',
            'confirmed_in_scratch_worktree': confirmation,
            'what_i_ran': ['demo.py on the clean worktree (exit 0)', 'demo.py with patch.diff applied (exit 1)',
                           'pytest suite with patch.diff applied (100 passed)'],
            'detected_by': {}}
    (d / 'meta.json').write_text(json.dumps(meta, indent=1))
    return d


def run(name, pids=None, tier='quick'):
    d = SEEDED / name
    meta = json.loads((d / 'meta.json').read_text())
    pids = pids or [meta['breaks_property']]
    rc, out = sh(['git', '-C', '/repo', 'status', '--porcelain'])
    if out.strip():
        print('refusing: /repo is not clean:\n' + out)
        return 2
    rc, out = sh(['git', '-C', '/repo', 'apply', str(d / 'patch.diff')])
    if rc != 0:
        print('patch does not apply to /repo:', out[-500:])
        return 2
    results = {}
    try:
        for pid in pids:
            t0 = time.time()
            rc, out = sh([str(ROOT / 'check'), pid, '--tier', tier], cwd=str(ROOT))
            lines = [ln for ln in out.splitlines() if ln.startswith('VIOLATION') or ln.startswith('KNOWN-FINDING')]
            results[pid] = {'exit': rc, 'lines': lines[:6], 'wall_s': round(time.time() - t0, 1)}
            print(name, pid, 'exit', rc, *lines[:3], sep=' | ')
            # keep the first replay as documentation of how it is reported
            for ln in lines:
                if ln.startswith('VIOLATION') and 'replay=' in ln:
                    rp = ROOT / ln.split('replay=')[1].split()[0]
                    if rp.exists():
                        try:
                            j = json.loads(rp.read_text())
                            results[pid]['clause'] = j.get('clause') or [b.get('kind') for b in j.get('no_longer_checks', [])][:3]
                        except Exception:
                            pass
                    break
    finally:
        sh(['git', '-C', '/repo', 'checkout', '--', '.'])
    meta['detected_by'].update(results)
    (d / 'meta.json').write_text(json.dumps(meta, indent=1))
    return 0


if __name__ == '__main__':
    cmd = sys.argv[1]
    if cmd == 'confirm':
        print(json.dumps(confirm(sys.argv[2], sys.argv[3]), indent=1))
    elif cmd == 'adopt':
        print(adopt(sys.argv[2], sys.argv[3], sys.argv[4], sys.argv[5], json.loads(sys.argv[6])))
    elif cmd == 'run':
        sys.exit(run(sys.argv[2], sys.argv[3:] or None))
