#!/bin/bash
# maintenance: run every quick check under many seeds and list the runs that did not exit 0
# usage: harness/seedsweep.sh FROM TO   (run from the /verif checkout or a snapshot of it)
cd "$(dirname "$0")/.."
/venv/bin/python harness/setup.py > /dev/null 2>&1
for sd in $(seq $1 $2); do
  for i in $(seq -w 1 20); do
    out=$(./check C$i --seed $sd 2>&1 | grep "^\[C\|^VIOLATION\|infrastructure")
    if ! echo "$out" | grep -q "exit=0"; then echo "seed=$sd $out"; fi
  done
  echo "seed $sd done"
done
